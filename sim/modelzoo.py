"""Model zoo and the model seam.

All models are pure functions of the point, built from exactly rounded ``*``
and ``+`` only (so vectorised and pointwise evaluation agree bit for bit), and
all have affine ``to/from_unit_hypercube``. ``SimModel.log_likelihood`` is the
*model seam*: it counts calls and points, checks that every point handed to
the user's likelihood lies in the prior support (C09), advances the virtual
clock and can kill or stall the process at the k-th call.
"""
import os

import numpy as np
from scipy import stats as _st

from nessai.model import Model


class Seam:
    """Per-process accounting at the user-model boundary."""

    def __init__(self):
        self.calls = 0
        self.points = 0
        self.sampling_started = False
        self.clock = None
        self.nb = None
        self.kill_at = {}
        self.stall_at = {}
        self.oob = 0
        self.oob_detail = None
        self.on_violation = None
        self.check_support = True
        self.record_args = None  # list to append copies of args to (C10)

    def configure(self, clock, nb, plan):
        self.clock = clock
        self.nb = nb
        for f in plan or []:
            if f["kind"] == "kill_like":
                self.kill_at[int(f["call"])] = f
            elif f["kind"] == "stall":
                self.stall_at[int(f["call"])] = f


SEAM = Seam()


class SimModel(Model):
    """Base of the zoo."""

    kind = "base"

    def __init__(self, dims=2, bound=5.0, names=None):
        self.names = names or [f"x{i}" for i in range(dims)]
        self.bounds = {n: [-bound, bound] for n in self.names}
        self._lo = np.array([self.bounds[n][0] for n in self.names])
        self._hi = np.array([self.bounds[n][1] for n in self.names])
        self._logvol = float(np.sum(np.log(self._hi - self._lo)))

    # -- user functions -------------------------------------------------
    def log_prior(self, x):
        lp = np.log(self.in_bounds(x), dtype="float64")
        return lp - self._logvol

    def raw_log_likelihood(self, x):
        s = x[self.names[0]] * x[self.names[0]]
        for n in self.names[1:]:
            s = s + x[n] * x[n]
        return -0.5 * s

    def ref_log_likelihood(self, x):
        """Reference evaluation used by monitors (never counted)."""
        return self.raw_log_likelihood(x)

    def log_likelihood(self, x):
        s = SEAM
        k = s.calls
        s.calls += 1
        n = int(np.size(x))
        s.points += n
        if s.record_args is not None:
            s.record_args.append(np.array(x, copy=True))
        if s.check_support and n:
            ok = np.all(self.in_bounds(x)) and np.all(np.isfinite(self.log_prior(x)))
            if not ok:
                s.oob += 1
                if s.oob_detail is None:
                    s.oob_detail = repr(np.array(x)[:3])
                if s.on_violation is not None:
                    s.on_violation("C09-likelihood-outside-support",
                                   {"call": k, "points": repr(np.array(x)[:3])})
        if s.clock is not None:
            s.clock.advance(s.clock.per_point * n)
            st = s.stall_at.get(k)
            if st is not None:
                s.clock.advance(float(st["dt"]))
                if s.nb is not None:
                    s.nb.note("stall", call=k, dt=st["dt"])
        kf = s.kill_at.get(k)
        if kf is not None:
            if s.nb is not None:
                s.nb.note("kill", fault=kf, call=k)
            os._exit(137)
        return self.raw_log_likelihood(x)

    def to_unit_hypercube(self, x):
        x_out = x.copy()
        for n in self.names:
            x_out[n] = (x[n] - self.bounds[n][0]) / (self.bounds[n][1] - self.bounds[n][0])
        return x_out

    def from_unit_hypercube(self, x):
        x_out = x.copy()
        for n in self.names:
            x_out[n] = (self.bounds[n][1] - self.bounds[n][0]) * x[n] + self.bounds[n][0]
        return x_out


class Gauss(SimModel):
    kind = "gauss"


class GaussNonUniform(SimModel):
    """Truncated-normal prior on the first parameter (exercises prior weights)."""

    kind = "gauss_nonuniform"

    def __init__(self, dims=2, bound=5.0, sigma=2.0):
        super().__init__(dims=dims, bound=bound)
        self.sigma = sigma
        a, b = -bound / sigma, bound / sigma
        self._tn = _st.truncnorm(a, b, loc=0.0, scale=sigma)
        self._logvol_rest = float(np.sum(np.log(self._hi[1:] - self._lo[1:])))

    def log_prior(self, x):
        inb = self.in_bounds(x)
        x0 = np.asarray(x[self.names[0]], dtype="float64")
        lp = self._tn.logpdf(x0) - self._logvol_rest
        return np.where(inb, lp, -np.inf)

    def to_unit_hypercube(self, x):
        x_out = SimModel.to_unit_hypercube(self, x)
        x_out[self.names[0]] = self._tn.cdf(x[self.names[0]])
        return x_out

    def from_unit_hypercube(self, x):
        x_out = SimModel.from_unit_hypercube(self, x)
        x_out[self.names[0]] = self._tn.ppf(x[self.names[0]])
        return x_out


class GaussConstrained(SimModel):
    """Prior that is zero inside part of the box: uniform on {x0 + x1 < c}; the
    likelihood peaks on the constraint, so rejected-by-prior draws are frequent."""

    kind = "gauss_constrained"

    def __init__(self, dims=2, bound=5.0, c=2.0):
        super().__init__(dims=dims, bound=bound)
        self.c = c

    def log_prior(self, x):
        ok = self.in_bounds(x) & ((x[self.names[0]] + x[self.names[1]]) < self.c)
        return np.log(ok, dtype="float64") - self._logvol

    def raw_log_likelihood(self, x):
        d0 = x[self.names[0]] - 1.0
        s = d0 * d0
        for n in self.names[1:]:
            d = x[n] - 1.0
            s = s + d * d
        return -0.5 * s


class GaussSloppyPrior(SimModel):
    """log_prior that does not check the bounds (finite everywhere): only nessai's own
    bounds checks keep points inside the prior box."""

    kind = "gauss_sloppy_prior"

    def log_prior(self, x):
        return np.zeros(np.size(x[self.names[0]]), dtype="float64") - self._logvol


class GaussX0Only(SimModel):
    """Likelihood that depends on the first parameter only: the other parameters stay spread over
    their whole prior range, so data-dependent bounds keep moving (and growing) between trainings."""

    kind = "gauss_x0only"

    def raw_log_likelihood(self, x):
        return -0.5 * (x[self.names[0]] * x[self.names[0]])


class GaussQuantised(SimModel):
    """Likelihood quantised to multiples of 1/8 (exact in binary): ties between
    live points are frequent, so '>' versus '>=' matters, but there is no
    infinite plateau."""

    kind = "gauss_quantised"

    def raw_log_likelihood(self, x):
        raw = SimModel.raw_log_likelihood(self, x)
        # quantised away from the peak only: a plateau at the maximum could never be left by
        # strict replacement (a limitation of nested sampling itself, not a property of nessai)
        return np.where(raw < -1.0, np.floor(raw * 8.0) / 8.0, raw)


class GaussScalar(SimModel):
    """Likelihood that only accepts one point at a time (non-vectorised path)."""

    kind = "gauss_scalar"

    def raw_log_likelihood(self, x):
        if np.size(x) != 1:
            raise ValueError("only scalar inputs")
        s = 0.0
        for n in self.names:
            v = float(np.asarray(x[n]).reshape(-1)[0])
            s = s + v * v
        return -0.5 * s

    def ref_log_likelihood(self, x):
        x = np.atleast_1d(x)
        return np.array([self.raw_log_likelihood(x[i:i + 1]) for i in range(x.size)])


class GaussArray1(SimModel):
    """Non-vectorised likelihood that returns a length-1 array per point."""

    kind = "gauss_array1"
    allow_vectorised = False

    def raw_log_likelihood(self, x):
        x = np.atleast_1d(x)
        if x.size != 1:
            raise ValueError("one point at a time")
        return np.atleast_1d(SimModel.raw_log_likelihood(self, x))

    def ref_log_likelihood(self, x):
        x = np.atleast_1d(x)
        return np.array([float(self.raw_log_likelihood(x[i:i + 1])[0]) for i in range(x.size)])


class GaussScalarPrior(SimModel):
    """Vectorised likelihood, prior written for one point at a time: it sums per-parameter terms
    into one float (for a batch that is the sum over all points, which nessai must never use)."""

    kind = "gauss_scalar_prior"

    def log_prior(self, x):
        x = np.atleast_1d(x)
        if x.size == 1:
            return SimModel.log_prior(self, x)
        return float(np.sum(SimModel.log_prior(self, x)))

    def ref_log_prior(self, x):
        x = np.atleast_1d(x)
        return np.array([float(np.asarray(SimModel.log_prior(self, x[i:i + 1])).reshape(-1)[0]) for i in range(x.size)])


class GaussAnalytic(SimModel):
    """new_point draws from the prior (for analytic_priors=True)."""

    kind = "gauss_analytic"

    def new_point(self, N=1):
        from nessai.livepoint import numpy_array_to_live_points

        x = np.random.uniform(self._lo, self._hi, size=(N, len(self.names)))
        return numpy_array_to_live_points(x, self.names)

    def new_point_log_prob(self, x):
        return self.log_prior(x)


class GaussGW(SimModel):
    """Parameter names that trigger default GW reparameterisations needing no
    optional dependency."""

    kind = "gauss_gw"

    def __init__(self, dims=3, bound=5.0):
        names = ["mass_ratio", "a_1", "tilt_1", "psi", "phase"][:dims]
        self.names = names
        b = {"mass_ratio": [0.125, 1.0], "a_1": [0.0, 0.99], "tilt_1": [0.0, np.pi], "psi": [0.0, np.pi],
             "phase": [0.0, 2 * np.pi]}
        self.bounds = {n: b[n] for n in names}
        self._lo = np.array([self.bounds[n][0] for n in self.names])
        self._hi = np.array([self.bounds[n][1] for n in self.names])
        self._logvol = float(np.sum(np.log(self._hi - self._lo)))
        self._mid = {n: 0.5 * (self.bounds[n][0] + self.bounds[n][1]) for n in names}

    def raw_log_likelihood(self, x):
        s = None
        for n in self.names:
            d = (x[n] - self._mid[n]) * 4.0
            s = d * d if s is None else s + d * d
        return -0.5 * s


ZOO = {
    "gauss": Gauss,
    "gauss_nonuniform": GaussNonUniform,
    "gauss_scalar": GaussScalar,
    "gauss_constrained": GaussConstrained,
    "gauss_quantised": GaussQuantised,
    "gauss_sloppy_prior": GaussSloppyPrior,
    "gauss_x0only": GaussX0Only,
    "gauss_array1": GaussArray1,
    "gauss_scalar_prior": GaussScalarPrior,
    "gauss_analytic": GaussAnalytic,
    "gauss_gw": GaussGW,
}


def build(spec):
    spec = dict(spec)
    name = spec.pop("name")
    return ZOO[name](**spec)
