"""Line-event pre-emption points, signal injection and the step budget.

``sys.settrace`` restricted to files of the nessai package. Every 'line'
event in such a file is one simulated step. At a planned step the hook calls
the handler nessai itself registered for the signal
(``signal.getsignal(signum)(signum, frame)``) and lets ``SystemExit``
propagate through the interrupted frames. The same counter is the
deterministic step budget (bounded liveness without wall-clock).
"""
import linecache
import os
import signal
import sys

BUDGET_EXIT = 72


class Tracer:
    def __init__(self, notebook, pkg_dir, plan=None, budget=None, record=None, state=None):
        self.nb = notebook
        self.pkg = os.path.realpath(pkg_dir) + os.sep
        self.count = 0
        self.enabled = False
        self.budget = budget
        self.signals = {}
        for f in plan or []:
            if f["kind"] == "signal" and f.get("line_event") is not None:
                self.signals[int(f["line_event"])] = f
        self.next_sig = min(self.signals) if self.signals else None
        # record: dict(windows=[(lo_it, hi_it)], max=int) -> record sites whose
        # current iteration is inside a window
        self.record = record
        self.recorded = []
        # compact full-run recording: site table + per-event site ids + marks
        self.site_ids = {}
        self.sites = []
        self.ev_sites = []
        self.marks = []
        self._last_mark = None
        self.state = state  # object exposing .iteration / .phase (set by incarnation)
        self._files = {}
        self.delivered = []
        self.in_handler = False
        self.on_signal = None
        self._local = self._local_impl  # one stable object (CPython 3.12 drops opcode events when f_trace changes)
        # opcode-level pre-emption inside selected functions (thorough deepening of the replace step)
        self.opcode_funcs = set()
        self.op_count = 0
        self.op_signals = {}
        for f in plan or []:
            if f["kind"] == "signal" and f.get("opcode_event") is not None:
                self.op_signals[int(f["opcode_event"])] = f
        self.op_recorded = []
        self.record_ops = False

    def _is_pkg(self, filename):
        r = self._files.get(filename)
        if r is None:
            r = os.path.realpath(filename).startswith(self.pkg)
            self._files[filename] = r
        return r

    def start(self):
        self.enabled = True
        if self.opcode_funcs:
            # CPython 3.12: the first request for opcode events in a process only takes effect for tracing
            # sessions started afterwards; warm it up with a throw-away session
            def _warm_local(frame, event, arg):
                frame.f_trace_opcodes = True
                return _warm_local

            def _warm_global(frame, event, arg):
                return _warm_local if frame.f_code.co_name == "_warm_target" else None

            def _warm_target():
                a = 1
                return a + 1

            sys.settrace(_warm_global)
            _warm_target()
            sys.settrace(None)
        sys.settrace(self._global)

    def stop(self):
        self.enabled = False
        sys.settrace(None)

    def _global(self, frame, event, arg):
        if not self.enabled:
            return None
        if self._is_pkg(frame.f_code.co_filename):
            return self._local
        return None

    def _deliver(self, f, frame, **where):
        s = self.site(frame)
        st = self.state
        self.nb.note("signal", signum=f["signum"], site=s,
                     iteration=(st.iteration() if st else None),
                     phase=(st.phase() if st else None),
                     stack=self.stack(frame), **where)
        self.delivered.append(f)
        if self.on_signal is not None:
            self.on_signal()
        handler = signal.getsignal(int(f["signum"]))
        if callable(handler) and handler is not signal.default_int_handler:
            was = self.in_handler
            self.in_handler = True
            try:
                handler(int(f["signum"]), frame)
            finally:
                self.in_handler = was
        else:
            # default disposition (nessai has not installed its handler yet, or Python's own SIGINT handler):
            # the process dies like a kill
            self.nb.note("signal_default", signum=f["signum"])
            os._exit(128 + int(f["signum"]))

    def deliver_now(self, f):
        """A signal that arrives while a file-system event is in progress (fault kind signal_fs): the site is
        the innermost nessai frame."""
        import sys

        if self.in_handler:
            return
        frame = sys._getframe(1)
        fr = frame
        while fr is not None and not os.path.realpath(fr.f_code.co_filename).startswith(self.pkg):
            fr = fr.f_back
        self._deliver(f, fr or frame, ev=self.count, fs_event=int(f["event"]))

    def site(self, frame):
        code = frame.f_code
        fn = code.co_filename
        text = linecache.getline(fn, frame.f_lineno).strip() if frame.f_lineno else ""
        qual = getattr(code, "co_qualname", code.co_name)
        return {
            "file": os.path.relpath(os.path.realpath(fn), self.pkg),
            "line": frame.f_lineno,
            "qual": qual,
            "text": " ".join(text.split()),
        }

    def _local_impl(self, frame, event, arg):
        if self.opcode_funcs and not frame.f_trace_opcodes \
                and getattr(frame.f_code, "co_qualname", "") in self.opcode_funcs:
            # (CPython 3.12 only honours f_trace_opcodes when it is set from the local trace function)
            frame.f_trace_opcodes = True
        if event == "opcode" and self.enabled and not self.in_handler:
            self.op_count += 1
            oc = self.op_count
            if self.record_ops:
                st = self.state
                self.op_recorded.append([oc, getattr(frame.f_code, "co_qualname", ""), frame.f_lineno,
                                         frame.f_lasti, st.iteration() if st else -1])
            f = self.op_signals.pop(oc, None)
            if f is not None:
                st = self.state
                s = self.site(frame)
                s["lasti"] = frame.f_lasti
                self.nb.note("signal", signum=f["signum"], ev=self.count, opcode_event=oc, site=s,
                             iteration=(st.iteration() if st else None), phase=(st.phase() if st else None),
                             stack=self.stack(frame))
                handler = signal.getsignal(int(f["signum"]))
                if callable(handler):
                    self.in_handler = True
                    try:
                        handler(int(f["signum"]), frame)
                    finally:
                        self.in_handler = False
            return self._local
        if event != "line" or not self.enabled or self.in_handler:
            return self._local
        self.count += 1
        c = self.count
        if self.record is not None and self.record.get("compact"):
            code = frame.f_code
            key = (code.co_filename, frame.f_lineno)
            sid = self.site_ids.get(key)
            if sid is None:
                sid = len(self.sites)
                self.site_ids[key] = sid
                self.sites.append(self.site(frame))
            self.ev_sites.append(sid)
            st = self.state
            mk = (st.iteration(), st.phase()) if st is not None else (-1, "")
            if mk != self._last_mark:
                self._last_mark = mk
                self.marks.append([c, mk[0], mk[1]])
        elif self.record is not None:
            st = self.state
            it = st.iteration() if st is not None else -1
            for lo, hi in self.record["windows"]:
                if lo <= it <= hi:
                    if len(self.recorded) < self.record.get("max", 200000):
                        s = self.site(frame)
                        s["ev"] = c
                        s["it"] = it
                        s["ph"] = st.phase() if st is not None else ""
                        self.recorded.append(s)
                    break
        if self.next_sig is not None and c == self.next_sig:
            f = self.signals.pop(c)
            self.next_sig = min(self.signals) if self.signals else None
            self._deliver(f, frame, ev=c)
        if self.budget is not None:
            if c == self.budget // 2:
                self.half_progress = self.progress(frame)
            elif c > self.budget:
                self.nb.note("budget_exhausted", steps=c, site=self.site(frame),
                             stack=self.stack(frame), progress_half=self.half_progress,
                             progress_end=self.progress(frame, diagnose=True))
                os._exit(BUDGET_EXIT)
        return self._local

    # loops whose progress variable tells "slow" from "stuck" when the budget runs out
    PROGRESS_VARS = {
        "FlowProposal.populate": "n_accepted",
        "ImportanceFlowProposal.draw": "n_accepted",
        "ImportanceFlowProposal.draw_from_flows": "count",
        "Model._multiple_new_points": "n",
        "ImportanceNestedSampler.populate_live_points": "n",
        "ImportanceNestedSampler.draw_final_samples": "it",
        "NestedSampler.populate_live_points": "i",
    }
    half_progress = None

    def progress(self, frame, diagnose=False):
        f = frame
        while f is not None:
            q = getattr(f.f_code, "co_qualname", f.f_code.co_name)
            var = self.PROGRESS_VARS.get(q)
            if var is not None and self._is_pkg(f.f_code.co_filename):
                out = {"loop": q, "var": var, "value": None}
                try:
                    out["value"] = float(f.f_locals.get(var))
                except Exception:
                    pass
                slf = f.f_locals.get("self")
                if q == "FlowProposal.populate":
                    out["bounded_by_max_samples"] = bool(getattr(slf, "accumulate_weights", False))
                    try:
                        out["n_proposed"] = float(f.f_locals.get("n_proposed"))
                    except Exception:
                        pass
                if diagnose:
                    out["cause"] = self.diagnose(q, slf)
                return out
            f = f.f_back
        return None

    def diagnose(self, q, slf):
        """Why does a population loop accept nothing? (the process is about to exit:
        drawing from the generators here perturbs nothing that is observed)"""
        import numpy as np

        was = self.enabled
        self.enabled = False
        try:
            if q == "FlowProposal.populate":
                z = slf.draw_latent_prior(64)
                x, lp = slf.flow.sample_and_log_prob(z=z, alt_dist=slf.alt_dist)
                if np.isnan(np.asarray(x, dtype=float)).all() or np.isnan(np.asarray(lp, dtype=float)).all():
                    return "flow-returns-nan"
                xs, lq = slf.backward_pass(z, rescale=not slf.use_x_prime_prior)
                if len(xs) == 0:
                    return "every-draw-outside-prior-bounds"
                lw = slf.compute_weights(xs, lq)
                if not np.isfinite(np.asarray(lw, dtype=float)).any():
                    return "no-finite-weight"
                return "draws-available-but-none-accepted"
            if q == "ImportanceFlowProposal.draw":
                x = slf.flow.sample_ith(i=slf.level_count, N=256)
                if np.isnan(x).all():
                    return "flow-returns-nan"
                inside = np.all((x >= 0) & (x <= 1), axis=1)
                if slf.reparameterisation is None and not inside.any():
                    return "unconstrained-flow-outside-unit-hypercube"
                return "draws-available-but-none-accepted"
        except Exception as e:  # diagnosis only
            return "diagnosis-failed:" + type(e).__name__
        finally:
            self.enabled = was
        return "unknown"

    def dump_compact(self, path):
        import json

        with open(path, "w") as f:
            json.dump({"sites": self.sites, "ev_sites": self.ev_sites, "marks": self.marks,
                       "first_event": 1, "ops": self.op_recorded}, f)

    def stack(self, frame, limit=12):
        out = []
        f = frame
        while f is not None and len(out) < limit:
            if self._is_pkg(f.f_code.co_filename):
                out.append(getattr(f.f_code, "co_qualname", f.f_code.co_name))
            f = f.f_back
        return out
