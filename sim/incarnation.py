"""One process incarnation of a simulated run (executed in a forked child).

Installs the seams, seeds the only unseeded source (interpreter-start
entropy), builds a fresh model and calls
``FlowSampler(model, output=..., resume=True, **kwargs).run(**run_kwargs)`` —
the public entry point, exactly what a user's script does after a restart.
"""
import contextlib
import os
import random
import sys
import traceback

import numpy as np

from . import clock as vclock
from . import digest as dg
from . import rng
from .disk import Disk
from .modelzoo import SEAM, build as build_model
from .notebook import Notebook
from .pool import SimPool
from .sigtrace import Tracer

EXIT_OK = 0
EXIT_EXCEPTION = 70
EXIT_VIOLATION = 71
EXIT_BUDGET = 72
EXIT_HARNESS = 73
EXIT_REJECTED = 74  # configuration rejected before sampling started
SIGNAL_EXIT = 77  # exit_code given to FlowSampler in every scenario


class Ctx:
    def __init__(self, world, inc, nb, clock):
        self.world = world
        self.inc = inc
        self.nb = nb
        self.clock = clock
        self.model = None
        self.resumed = False
        self.phase = "construct"
        self.iteration = 0
        self.probes = {}
        self.ckpt_ordinal = 0
        self.api_points = 0
        self.api_calls = 0
        self.fs = None
        self.sampler_kind = world["scenario"]["sampler"]
        self.collect_all = bool(world.get("collect_all_violations", False))
        self.nviol = 0
        self.guard_rng = bool(world.get("guard_rng", True))
        self.disk = None
        self.tracer = None
        self.sim_pool = None

    def probe(self, name, n=1):
        self.probes[name] = self.probes.get(name, 0) + n

    def violation(self, oracle, detail):
        self.nviol += 1
        self.nb.note("violation", oracle=oracle, detail=detail, phase=self.phase,
                     iteration=int(self.iteration))
        if not self.collect_all or self.nviol >= 20:
            self.finish(EXIT_VIOLATION)

    def harness_error(self, what):
        self.nb.note("harness_error", what=what)
        self.finish(EXIT_HARNESS)

    def finish(self, code):
        prof = getattr(self, "_prof", None)
        if prof is not None:
            import pstats
            prof.disable()
            pstats.Stats(prof).sort_stats("cumulative").print_stats(45)
        try:
            if self.tracer is not None:
                self.tracer.enabled = False
                if self.tracer.record and self.tracer.record.get("compact"):
                    self.tracer.dump_compact(os.path.join(os.path.dirname(self.nb.path), f"trace_i{self.inc}.json"))
            self.nb.note("exit", code=code, probes=self.probes, steps=(self.tracer.count if self.tracer else 0),
                         fs_events=(self.disk.n if self.disk else 0), seam_calls=SEAM.calls,
                         seam_points=SEAM.points, api_points=self.api_points,
                         pool=(self.sim_pool.summary() if self.sim_pool else None),
                         trace=(self.tracer.recorded if self.tracer and self.tracer.record else None))
        finally:
            os._exit(code)

    @contextlib.contextmanager
    def guard(self):
        """Monitors must not perturb the schedule: RNG state is compared and
        tracing (step counting) is suspended while a monitor runs."""
        tr = self.tracer
        was = tr.enabled if tr is not None else False
        if tr is not None:
            tr.enabled = False
        if self.guard_rng:
            import torch

            s0 = np.random.get_state()
            t0 = torch.get_rng_state()
        try:
            yield
        except BaseException as e:  # monitor bug, never a violation
            if isinstance(e, SystemExit):
                raise
            self.nb.note("harness_error", what="monitor raised", tb=traceback.format_exc())
            self.finish(EXIT_HARNESS)
        if self.guard_rng:
            s1 = np.random.get_state()
            t1 = torch.get_rng_state()
            if not (s0[0] == s1[0] and np.array_equal(s0[1], s1[1]) and s0[2:] == s1[2:]
                    and torch.equal(t0, t1)):
                self.harness_error("monitor perturbed RNG state")
        if tr is not None:
            tr.enabled = was

    # -- digests -----------------------------------------------------------
    def digest(self, ns):
        if self.sampler_kind == "ins":
            return dg.ins_digest(ns)
        return dg.ns_digest(ns)

    def on_restored(self, ns):
        d = self.digest(ns)
        # reach probes: in which state was the run resumed?
        if self.sampler_kind == "ns":
            fp = ns._flow_proposal
            self.probe("resume_during_uninformed_sampling" if ns.uninformed_sampling else "resume_during_flow_sampling")
            if getattr(fp, "resume_populated", False) and getattr(fp, "indices", []):
                self.probe("resume_with_populated_pool")
            else:
                self.probe("resume_with_empty_pool")
            if not ns.completed_training:
                self.probe("resume_with_training_incomplete")
            if getattr(ns, "_awaiting_replacement", False) is True:
                self.probe("resume_awaiting_replacement")
            if getattr(fp, "training_count", 0):
                self.probe("resume_after_training")
            else:
                self.probe("resume_before_training")
            if ns.live_points is None and not ns.finalised:
                self.probe("resume_before_live_points")
        else:
            self.probe("resume_ins_with_saved_log_q" if ns.save_log_q else "resume_ins_rederived_log_q")
            self.probe(f"resume_ins_levels_{min(int(ns.proposal.n_proposals) - 1, 5)}")
        self.nb.note("restored", digest=d, iteration=int(ns.iteration),
                     evals=int(ns.model.likelihood_evaluations),
                     sampling_time=ns.sampling_time.total_seconds())


class _State:
    def __init__(self, ctx):
        self.ctx = ctx

    def iteration(self):
        fs = self.ctx.fs
        try:
            return int(fs.ns.iteration) if fs is not None else -1
        except Exception:
            return -1

    def phase(self):
        return self.ctx.phase


def _patch_everywhere(orig, new):
    n = 0
    for name, mod in list(sys.modules.items()):
        if mod is None or not name.startswith("nessai"):
            continue
        d = getattr(mod, "__dict__", {})
        for k, v in list(d.items()):
            if v is orig:
                d[k] = new
                n += 1
    return n


def install_checkpoint_seam(ctx, disk, resume_name):
    import nessai.utils.io as nio

    orig = nio.safe_file_dump

    def safe_file_dump(data, filename, module, save_existing=False):
        from nessai.samplers.base import BaseNestedSampler

        is_sampler = isinstance(data, BaseNestedSampler)
        if is_sampler:
            ctx.ckpt_ordinal += 1
            o = ctx.ckpt_ordinal
            with ctx.guard():
                d = ctx.digest(data)
                mid = ctx.phase
                ctx.nb.note("ckpt_begin", ordinal=o, digest=d, iteration=int(data.iteration),
                            phase=mid, evals=int(data.model.likelihood_evaluations),
                            api_points=int(ctx.api_points), seam_points=int(SEAM.points),
                            sampling_time=data.sampling_time.total_seconds(),
                            training_time=(data.training_time.total_seconds()
                                           if hasattr(data, "training_time") else None),
                            likelihood_time=data.model.likelihood_evaluation_time.total_seconds(),
                            finalised=bool(data.finalised), save_existing=bool(save_existing),
                            fs_event=disk.n)
            outer_ckpt = getattr(disk, "current_ckpt", None)  # a signal handler checkpoints inside a checkpoint
            disk.current_ckpt = o
        prev_phase = ctx.phase
        if is_sampler:
            ctx.phase = prev_phase + "/ckpt"
        try:
            out = orig(data, filename, module, save_existing=save_existing)
        finally:
            ctx.phase = prev_phase
        if is_sampler:
            sha = None
            try:
                import hashlib
                from .disk import _real_open

                with _real_open(filename, "rb") as fh:
                    sha = hashlib.sha1(fh.read()).hexdigest()
            except OSError:
                pass
            ctx.nb.note("ckpt_done", ordinal=o, fs_event=disk.n, sha=sha)
            disk.current_ckpt = outer_ckpt
        return out

    _patch_everywhere(orig, safe_file_dump)

    snaps = ctx.world.get("snapshots")
    wsnaps = ctx.world.get("weights_snapshots")
    if snaps or wsnaps:
        def snapshot_on(kind, rel, dst, ev):
            if snaps and kind == "rename" and dst and dst.endswith(resume_name) \
                    and getattr(disk, "current_ckpt", None) is not None:
                o = disk.current_ckpt
                if snaps == "all" or o in snaps:
                    return f"snap_i{ctx.inc}_c{o}"
            if wsnaps and kind == "create" and rel and (rel.endswith(".pt") or ".pt." in rel):
                return f"wsnap_i{ctx.inc}_e{ev}"
            return None

        disk.snapshot_on = snapshot_on
        disk.keep_weights_bytes = bool(wsnaps)


def install_model_api_counters(ctx):
    from nessai.model import Model

    o1 = Model.evaluate_log_likelihood
    o2 = Model.batch_evaluate_log_likelihood

    def evaluate_log_likelihood(self, x):
        out = o1(self, x)
        # counted when the evaluation has completed (nessai counts a batch after it returns; an
        # evaluation interrupted by a signal was never recorded and is redone after the resume)
        ctx.api_points += int(np.size(x))
        ctx.api_calls += 1
        return out

    def batch_evaluate_log_likelihood(self, x, *a, **k):
        if not SEAM.sampling_started:
            SEAM.sampling_started = True
            ctx.nb.note("sampling_started", via="batch")
        out = o2(self, x, *a, **k)
        ctx.api_points += int(np.size(x))
        ctx.api_calls += 1
        return out

    Model.evaluate_log_likelihood = evaluate_log_likelihood
    Model.batch_evaluate_log_likelihood = batch_evaluate_log_likelihood


def install_loop_notes(ctx):
    from nessai.samplers.nestedsampler import NestedSampler
    from nessai.samplers.importancesampler import ImportanceNestedSampler

    for cls in (NestedSampler, ImportanceNestedSampler):
        orig = cls.nested_sampling_loop

        def nested_sampling_loop(self, _orig=orig):
            ctx.nb.note("loop_enter", iteration=int(self.iteration), finalised=bool(self.finalised))
            out = _orig(self)
            ctx.nb.note("loop_exit", iteration=int(self.iteration), finalised=bool(self.finalised))
            return out

        cls.nested_sampling_loop = nested_sampling_loop


def default_like_callback(sampler):
    """A user checkpoint callback that does what nessai's default does."""
    import pickle

    import nessai.utils

    nessai.utils.safe_file_dump(sampler, sampler.resume_file, pickle, save_existing=True)


def materialise_kwargs(ctx, scn, model):
    kwargs = dict(scn.get("kwargs", {}))
    pool = scn.get("pool")
    if pool:
        from nessai.utils.multiprocessing import initialise_pool_variables

        if pool.get("real"):
            if pool.get("via") == "n_pool":
                kwargs["n_pool"] = int(pool["k"])
            else:
                import multiprocessing

                initialise_pool_variables(model)
                kwargs["pool"] = multiprocessing.get_context("fork").Pool(int(pool["k"]))
        else:
            initialise_pool_variables(model)
            sp = SimPool(pool["k"], sched_seed=rng.derive(ctx.world["seed"], "pool", ctx.inc, pool.get("sched", 0)),
                         clock=ctx.clock, notebook=ctx.nb, mode=pool.get("mode", "shuffle"))
            ctx.sim_pool = sp
            kwargs["pool"] = sp
    if scn.get("class_objects"):
        # pass classes instead of their names (config.json must still be written; C19)
        from nessai.proposal.utils import get_flow_proposal_class

        kwargs["flow_proposal_class"] = get_flow_proposal_class(kwargs.get("flow_proposal_class"))
        if scn["sampler"] == "ns" and kwargs.get("analytic_priors") is None:
            from nessai.proposal import RejectionProposal

            kwargs["uninformed_proposal"] = RejectionProposal
            kwargs.setdefault("uninformed_proposal_kwargs", {"poolsize": kwargs.get("nlive", 100)})
    if scn.get("callback"):
        # non-serialisable value nessai accepts (C19 config.json clause)
        kwargs["checkpoint_callback"] = default_like_callback
    return kwargs


def run(world, inc, lab_dir, disk_dir, t0):
    """Child entry. Never returns."""
    scn = world["scenario"]
    plan = [f for f in world.get("plan", []) if f.get("inc", 0) == inc]
    ck = scn.get("clock", {})
    clk = vclock.Clock(t0=t0, per_point=ck.get("per_point", 1e-3), train=ck.get("train", 0.5),
                       io=ck.get("io", 0.01), populate=ck.get("populate", 0.05))
    nb = Notebook(os.path.join(lab_dir, "notebook.jsonl"), inc, clk)
    ctx = Ctx(world, inc, nb, clk)
    if os.environ.get("NESSAI_SIM_PROFILE"):
        import cProfile
        ctx._prof = cProfile.Profile()
        ctx._prof.enable()
    try:
        os.chdir(disk_dir)
        import torch
        import nessai

        seed = rng.seed32(world["seed"], "incarnation", inc)
        np.random.seed(seed)
        torch.manual_seed(seed)
        random.seed(seed)

        vclock.install(clk)
        resume_name = scn.get("kwargs", {}).get("resume_file", "nested_sampler_resume.pkl")
        disk = Disk(disk_dir, nb, clk, plan=plan, record_trace=world.get("record_fs", True),
                    snapshot_dir=lab_dir)
        disk.current_ckpt = None
        ctx.disk = disk
        disk.install()
        install_checkpoint_seam(ctx, disk, resume_name)
        install_model_api_counters(ctx)
        install_loop_notes(ctx)

        SEAM.configure(clk, nb, plan)
        SEAM.on_violation = ctx.violation
        model = build_model(scn["model"])
        ctx.model = model

        monitors = world.get("monitors", ["ns", "res"])
        mons = {}
        if scn["sampler"] == "ns" and "ns" in monitors:
            from .monitors_ns import NSMonitor

            mons["ns"] = NSMonitor(ctx)
            mons["ns"].install()
        if scn["sampler"] == "ins" and "ins" in monitors:
            from .monitors_ins import INSMonitor

            mons["ins"] = INSMonitor(ctx)
            mons["ins"].install()
        ctx.mons = mons

        pkg = os.path.dirname(os.path.abspath(nessai.__file__))
        tracer = Tracer(nb, pkg, plan=plan, budget=world.get("budget_steps"),
                        record=world.get("record_lines"), state=_State(ctx))
        ctx.tracer = tracer
        tracer.on_signal = lambda: setattr(disk, "signal_base", disk.n)
        disk.deliver_signal = tracer.deliver_now
        if world.get("opcode_funcs"):
            tracer.opcode_funcs = set(world["opcode_funcs"])
            tracer.record_ops = bool((world.get("record_lines") or {}).get("compact"))

        kwargs = materialise_kwargs(ctx, scn, model)
        run_kwargs = dict(scn.get("run_kwargs", {}))
        run_kwargs.setdefault("plot", False)
        rsha = rsha_old = None
        if world.get("note_resume_sha"):
            import hashlib
            from .disk import _real_open

            def _sha(name):
                try:
                    with _real_open(os.path.join(scn.get("output", "out"), name), "rb") as fh:
                        return hashlib.sha1(fh.read()).hexdigest()
                except OSError:
                    return None

            rsha = _sha(resume_name)
            rsha_old = _sha(resume_name + ".old")
        nb.note("start", seed=seed, plan=plan, pid_independent=True, resume_sha=rsha, resume_old_sha=rsha_old)
        from nessai.flowsampler import FlowSampler

        tracer.start()
        fs = FlowSampler(model, output=scn.get("output", "out"), resume=True,
                         importance_nested_sampler=(scn["sampler"] == "ins"),
                         exit_code=SIGNAL_EXIT, **kwargs)
        ctx.fs = fs
        ctx.resumed = bool(fs.ns.resumed)
        ctx.iteration = int(fs.ns.iteration)
        tracer.enabled = False
        nb.note("constructed", resumed=ctx.resumed, iteration=int(fs.ns.iteration),
                evals=int(model.likelihood_evaluations), finalised=bool(fs.ns.finalised))
        if ctx.resumed and scn["sampler"] == "ns":
            with ctx.guard():
                ctx.on_restored(fs.ns)
        if ctx.resumed and scn["sampler"] == "ins":
            with ctx.guard():
                ctx.on_restored(fs.ns)
                if "ins" in mons:
                    mons["ins"].check_all(fs.ns, "resume")
                    ctx.probe("ins_density_checked_after_resume")
        if world.get("stop_after_construct") or (
                world.get("stop_after_construct_from") is not None
                and inc >= world["stop_after_construct_from"]):
            if ctx.resumed and scn["sampler"] == "ns":
                # C11 weights-prefix mode: run the part of run() that restores
                fs.ns.initialise()
                fs.ns.check_resume()
            ctx.finish(EXIT_OK)
        ctx.phase = "loop"
        SEAM.sampling_started = False
        ctx.resumed_finished = bool(ctx.resumed and fs.ns.finalised)
        seam0, api0 = SEAM.points, ctx.api_points
        tracer.enabled = True
        fs.run(**run_kwargs)
        tracer.enabled = False
        ctx.phase = "post"
        nb.note("run_returned", iteration=int(fs.ns.iteration))
        from . import postrun

        if ctx.resumed_finished:
            ctx.probe("resume_after_finish")
            if SEAM.points != seam0 or ctx.api_points != api0:
                ctx.violation("C15-resume-evaluations", {"raw": SEAM.points - seam0, "api": ctx.api_points - api0})
        postrun.after_run(ctx, fs, world)
        ctx.finish(EXIT_OK)
    except SystemExit as e:
        code = e.code if isinstance(e.code, int) else 1
        nb.note("sysexit", code=code, phase=ctx.phase)
        ctx.finish(code)
    except BaseException:
        tb = traceback.format_exc()
        et, ev, etb = sys.exc_info()
        site = None
        try:
            import nessai as _n

            pkg = os.path.dirname(os.path.abspath(_n.__file__)) + os.sep
            t = etb
            while t is not None:
                fn = os.path.abspath(t.tb_frame.f_code.co_filename)
                if fn.startswith(pkg):
                    site = (os.path.relpath(fn, pkg) + ":"
                            + getattr(t.tb_frame.f_code, "co_qualname", t.tb_frame.f_code.co_name))
                t = t.tb_next
        except Exception:
            pass
        nb.note("exception", type=et.__name__, msg=str(ev)[:500], tb=tb[-3000:], phase=ctx.phase, site=site,
                sampling_started=bool(SEAM.sampling_started), constructed=ctx.fs is not None,
                seam_points=int(SEAM.points), api_points=int(ctx.api_points))
        ctx.finish(EXIT_EXCEPTION)
