"""Monitors for the importance nested sampler: INS-DENS, INS-STORE (C03/C04
in-run), C09 draw clauses, C15 criteria, C17 thresholds, RES-INS."""
import numpy as np
from scipy.special import betainc, logsumexp

from . import oracles
from .monitors_ns import _wrap

ATOL = 1e-3
RTOL = 1e-4


def _pbytes(samples, names):
    """Identity of a sample: the bytes of its parameter values."""
    a = np.ascontiguousarray(np.stack([samples[n] for n in names], axis=-1))
    return [a[i].tobytes() for i in range(a.shape[0])]


def densclose(a, b):
    a = np.asarray(a, dtype=float)
    b = np.asarray(b, dtype=float)
    if a.shape != b.shape:
        return False, None
    same_inf = np.isinf(a) & np.isinf(b) & (np.sign(a) == np.sign(b))
    # a flow that returns NaN (seen with linear_transform='svd' on this stack) returns it on re-evaluation too: the
    # stored value *is* what the definition gives, so it counts as agreement (the NaN itself is C20's business)
    same_nan = np.isnan(a) & np.isnan(b)
    with np.errstate(invalid="ignore"):
        ok = np.abs(a - b) <= ATOL + RTOL * np.maximum(np.abs(a), np.abs(b))
    ok = ok | same_inf | same_nan
    if np.all(ok):
        return True, None
    bad = np.argwhere(~ok)[0]
    return False, {"index": [int(i) for i in bad], "stored": float(a[tuple(bad)]), "recomputed": float(b[tuple(bad)]),
                   "n_bad": int((~ok).sum())}


def float32_explained(mod, xp, lj, idx, a, b, max_rows=64):
    """True when every disagreement between two evaluations of one flow's log-density is within three times the
    change that a one- or two-ulp (float32) perturbation of the input produces: 'float32 accuracy' for a flow
    that is steep at that point. idx = rows that disagree; a, b = the two values per row."""
    import torch

    if len(idx) > max_rows:
        return False
    t = torch.from_numpy(xp[idx]).type(torch.float32)
    with torch.no_grad():
        base = mod.log_prob(t).cpu().numpy().astype("float64")
        spread = np.zeros(len(idx))
        for sign in (1.0, -1.0):
            tt = t.clone()
            for _ in range(2):
                tt = torch.nextafter(tt, tt + sign * torch.ones_like(tt))
                v = mod.log_prob(tt).cpu().numpy().astype("float64")
                spread = np.maximum(spread, np.abs(v - base))
    diff = np.abs(np.asarray(a, dtype=float) - np.asarray(b, dtype=float))
    tol = ATOL + RTOL * np.maximum(np.abs(a), np.abs(b))
    return bool(np.all(diff <= tol + 3.0 * spread))


class INSMonitor:
    def __init__(self, ctx):
        self.ctx = ctx
        self.ever = {}  # store name -> {pbytes: (logL, it)}
        self.dens_checked = 0
        self.store_checked = 0
        self.criteria = []  # per compute_stopping_criterion
        self.thresholds = 0
        self.probes = ctx.probes

    # ------------------------------------------------------------------
    def stores(self, ns):
        out = [("training_samples", ns.training_samples)]
        if ns.iid_samples is not None:
            out.append(("iid_samples", ns.iid_samples))
        return out

    def check_store(self, ns, name, s, where):
        ctx = self.ctx
        m = ctx.model
        x = s.samples
        n = len(x)
        it = int(ns.iteration)
        self.store_checked += 1
        if np.any(np.diff(x["logL"]) < 0):
            ctx.violation("INS-STORE-sorted", {"store": name, "where": where, "iteration": it})
        live = s.live_points_indices
        dead = s.nested_samples_indices
        li = np.asarray(live if live is not None else [], dtype=int)
        di = np.asarray(dead if dead is not None else [], dtype=int)
        if li.size and np.any(np.diff(li) <= 0):
            ctx.violation("INS-STORE-live-indices", {"store": name, "where": where, "iteration": it})
        if di.size and np.any(np.diff(di) <= 0):
            ctx.violation("INS-STORE-dead-indices", {"store": name, "where": where, "iteration": it})
        both = np.concatenate([li, di])
        if both.size != n or not np.array_equal(np.sort(both), np.arange(n)):
            ctx.violation("INS-STORE-partition", {"store": name, "where": where, "iteration": it,
                                                  "n": n, "live": int(li.size), "dead": int(di.size)})
        if s.log_q is None or s.log_q.shape[0] != n:
            ctx.violation("INS-STORE-logq-shape", {"store": name, "where": where, "iteration": it,
                                                   "shape": None if s.log_q is None else list(s.log_q.shape), "n": n})
        # conservation: every sample ever added still present and unmodified
        # (a multiset: with clip=True distinct draws can coincide on a face)
        ever = self.ever.setdefault(name, {})
        pb = _pbytes(x, m.names)
        cur = {}
        for i, b in enumerate(pb):
            key = (b, float(x["logL"][i]), int(x["it"][i]))
            cur[key] = cur.get(key, 0) + 1
        for key, c in ever.items():
            if cur.get(key, 0) < c:
                ctx.violation("INS-STORE-conservation", {"store": name, "where": where, "iteration": it,
                                                         "what": "sample lost or modified",
                                                         "logL": key[1], "sample_it": key[2],
                                                         "had": c, "now": cur.get(key, 0)})
                break
        if sum(cur.values()) != n:
            ctx.violation("INS-STORE-conservation", {"store": name, "where": where, "what": "count"})
        self.ever[name] = cur
        # strict threshold: live = {logL >= threshold}
        if s.strict_threshold and live is not None and s.log_likelihood_threshold is not None \
                and where in ("update_evidence",):
            want = np.flatnonzero(x["logL"] >= s.log_likelihood_threshold)
            if not np.array_equal(want, li):
                ctx.violation("INS-STORE-strict-live", {"store": name, "iteration": it,
                                                        "expected": int(want.size), "live": int(li.size)})

    def check_density(self, ns, name, s, where):
        ctx = self.ctx
        m = ctx.model
        p = ns.proposal
        x = s.samples
        n = len(x)
        it = int(ns.iteration)
        self.dens_checked += 1
        lq = s.log_q
        if lq is None:
            ctx.violation("INS-DENS-table-missing", {"store": name, "where": where, "iteration": it})
            return
        if lq.shape != (n, p.n_proposals):
            ctx.violation("INS-DENS-shape", {"store": name, "where": where, "iteration": it,
                                             "shape": list(lq.shape), "n": n, "n_proposals": int(p.n_proposals)})
            return
        u = np.stack([x[k] for k in m.names], axis=-1).astype("float64")
        if np.any(u < 0) or np.any(u > 1):
            ctx.violation("INS-DENS-unit-cube", {"store": name, "where": where, "iteration": it})
        if np.any(lq[:, 0] != 0):
            ctx.violation("INS-DENS-prior-column", {"store": name, "where": where, "iteration": it})
        import torch

        if p.reparameterisation == "logit":
            inner = (u > 2e-8) & (u < 1 - 2e-8)
            rows = np.all(inner, axis=1)
            with np.errstate(divide="ignore", invalid="ignore"):
                xp_all = np.log(u) - np.log1p(-u)
                lj_all = -np.sum(np.log(u) + np.log1p(-u), axis=1)
        else:
            rows = np.ones(n, dtype=bool)
            xp_all = u.copy()
            lj_all = np.zeros(n)

        def explained(a, b, col_of, row_of):
            """Are all disagreements between tables a and b float32 noise of a steep flow? (narrow relaxation)"""
            a = np.asarray(a, dtype=float)
            b = np.asarray(b, dtype=float)
            with np.errstate(invalid="ignore"):
                bad = ~((np.abs(a - b) <= ATOL + RTOL * np.maximum(np.abs(a), np.abs(b)))
                        | (np.isinf(a) & np.isinf(b) & (np.sign(a) == np.sign(b))))
            if a.ndim == 1:
                bad = bad[:, None]
                a = a[:, None]
                b = b[:, None]
            if p.flow is None or not np.all(np.isfinite(a[bad])) or not np.all(np.isfinite(b[bad])):
                return False
            for c in np.flatnonzero(bad.any(axis=0)):
                j = col_of(c)
                if j < 1 or j > p.flow.n_models:
                    return False
                ridx = row_of(np.flatnonzero(bad[:, c]))
                if not np.all(rows[ridx]):
                    return False
                mod = p.flow.models[j - 1]
                was = mod.training
                mod.eval()
                try:
                    if not float32_explained(mod, xp_all, lj_all, ridx, a[bad[:, c], c], b[bad[:, c], c]):
                        return False
                finally:
                    if was:
                        mod.train()
            ctx.probe("ins_dens_steep_flow_float32_noise")
            return True

        # (a) nessai's own re-evaluation
        logQ2, lq2 = p.compute_meta_proposal_samples(x)
        margin = np.min(np.minimum(u, 1 - u), axis=1)
        ok, d = densclose(lq, lq2)
        if not ok and not explained(lq, lq2, lambda c: int(c), lambda r: r):
            d["margin"] = float(margin[d["index"][0]])
            d["sample_it"] = int(x["it"][d["index"][0]])
            ctx.violation("INS-DENS-logq", {"store": name, "where": where, "iteration": it, "route": "nessai", **(d or {})})
        # (b) independent evaluation of each saved flow
        xp = xp_all[rows]
        lj = lj_all[rows]
        ridx_all = np.flatnonzero(rows)
        if rows.any() and p.flow is not None and p.flow.n_models:
            t = torch.from_numpy(xp).type(torch.get_default_dtype())
            with torch.no_grad():
                for j, mod in enumerate(p.flow.models):
                    was = mod.training
                    if was:
                        mod.eval()
                    ref = mod.log_prob(t).cpu().numpy().astype("float64") + lj
                    ok, d = densclose(lq[rows, j + 1], ref)
                    if not ok and not explained(lq[rows, j + 1], ref, lambda c, j=j: j + 1, lambda r: ridx_all[r]):
                        ctx.violation("INS-DENS-logq", {"store": name, "where": where, "iteration": it,
                                                        "route": "independent", "flow": j, **(d or {})})
        # weights = fraction of samples drawn from each proposal
        counts = np.bincount(x["it"].astype(int) + 1, minlength=p.n_proposals).astype(float)
        w = counts / counts.sum()
        wa = p.weights_array
        if len(wa) != len(w) or not np.allclose(wa, w, rtol=0, atol=1e-12) or abs(wa.sum() - 1) > 1e-9:
            ctx.violation("INS-DENS-weights", {"store": name, "where": where, "iteration": it,
                                               "weights": [float(v) for v in wa], "fractions": [float(v) for v in w]})
        with np.errstate(divide="ignore"):
            ref_logQ = logsumexp(lq, b=w, axis=1)
        ok, d = densclose(x["logQ"], ref_logQ)
        # exact agreement with the current table only while the table is the one the
        # values were computed from (after a resume it is re-derived in float32)
        exact_ok = ctx.resumed or oracles.close(x["logQ"], logsumexp(lq, b=wa, axis=1), rtol=1e-10, atol=1e-10)
        if not ok or not exact_ok:
            ctx.violation("INS-DENS-logQ", {"store": name, "where": where, "iteration": it, **(d or {})})
        logU = m.log_prior_unit_hypercube(x)
        if not np.array_equal(np.asarray(logU, dtype=float), x["logU"]):
            ctx.violation("INS-DENS-logU", {"store": name, "where": where, "iteration": it})
        if not np.array_equal(x["logW"], x["logU"] - x["logQ"]):
            ctx.violation("INS-DENS-logW", {"store": name, "where": where, "iteration": it})
        phys = m.from_unit_hypercube(x)
        ll = np.asarray(m.ref_log_likelihood(phys), dtype=x["logL"].dtype)
        if not np.array_equal(ll, x["logL"]):
            bad = int(np.flatnonzero(ll != x["logL"])[0])
            ctx.violation("INS-DENS-logL", {"store": name, "where": where, "iteration": it,
                                            "stored": float(x["logL"][bad]), "model": float(ll[bad])})

    def check_all(self, ns, where):
        for name, s in self.stores(ns):
            if s.samples is None:
                continue
            self.check_store(ns, name, s, where)
            self.check_density(ns, name, s, where)

    # ------------------------------------------------------------------
    def install(self):
        from nessai.samplers.importancesampler import ImportanceNestedSampler as INS, OrderedSamples
        from nessai.proposal.importance import ImportanceFlowProposal as IFP

        mon = self
        ctx = self.ctx

        def mk_update_evidence(orig):
            def update_evidence(ns):
                out = orig(ns)
                with ctx.guard():
                    mon.check_all(ns, "update_evidence")
                    ctx.iteration = int(ns.iteration)
                    ctx.nb.note("it", it=int(ns.iteration), d=float(ns.state.logZ).hex(),
                                n=int(len(ns.samples_unit)))
                return out
            return update_evidence

        def mk_finalise(orig):
            def finalise(ns):
                was = bool(ns.finalised)
                ctx.phase = "finalise"
                out = orig(ns)
                ctx.phase = "post"
                if not was:
                    with ctx.guard():
                        mon.check_all(ns, "finalise")
                        for name, s in mon.stores(ns):
                            if s.live_points_indices is not None:
                                ctx.violation("INS-FINAL", {"store": name, "what": "live points not consumed"})
                        ctx.nb.note("finalised", n=int(len(ns.samples_unit)), iteration=int(ns.iteration))
                return out
            return finalise

        def mk_threshold(orig):
            def determine_log_likelihood_threshold(ns, samples, method="entropy", **kwargs):
                try:
                    out = orig(ns, samples, method=method, **kwargs)
                except Exception as e:  # the next threshold must be a live sample's likelihood for every live set
                    with ctx.guard():
                        ctx.violation("C17-threshold-raises", {
                            "iteration": int(ns.iteration), "size": int(len(samples)), "method": method,
                            "min_samples": int(ns.min_samples), "min_remove": int(ns.min_remove),
                            "max_samples": ns.max_samples, "nlive": int(ns.nlive),
                            "exception": f"{type(e).__name__}: {e}"[:200]})
                    raise
                with ctx.guard():
                    mon.after_threshold(ns, samples, method, kwargs, out)
                return out
            return determine_log_likelihood_threshold

        def mk_add_new_proposal(orig):
            def add_new_proposal(ns):
                prev = ctx.phase
                ctx.phase = prev + "/train"
                out = orig(ns)
                ctx.phase = prev
                with ctx.guard():
                    n = len(ns.current_training_samples)
                    tot = len(ns.training_samples.samples)
                    if n < min(ns.min_samples, tot):
                        ctx.violation("C17-training-floor", {"n_train": n, "min_samples": int(ns.min_samples),
                                                             "total": tot, "iteration": int(ns.iteration)})
                    ctx.nb.note("trained", count=int(ns.proposal.level_count), n=n)
                return out
            return add_new_proposal

        def mk_criterion(orig):
            def compute_stopping_criterion(ns):
                out = orig(ns)
                with ctx.guard():
                    mon.after_criterion(ns, out)
                return out
            return compute_stopping_criterion

        def mk_remove(orig):
            def remove_samples(s):
                with ctx.guard():
                    live = s.live_points
                    thr = s.log_likelihood_threshold
                    n_live = 0 if live is None else len(live)
                    below = 0 if live is None else int(np.sum(live["logL"] < thr))
                n = orig(s)
                with ctx.guard():
                    want = n_live if s.replace_all else below
                    if int(n) != want:
                        ctx.violation("INS-STORE-removed-count",
                                      {"reported": int(n), "live_below_threshold": below, "live": n_live,
                                       "replace_all": bool(s.replace_all),
                                       "threshold_above_all_live": bool(n_live and below == n_live)})
                    if n_live and below == n_live:
                        ctx.probe("threshold_above_all_live")
                return n
            return remove_samples

        def mk_draw(orig):
            def draw(p, n, *a, **k):
                prev = ctx.phase
                ctx.phase = prev + "/populate"
                ctx.clock.advance(ctx.clock.populate)
                out = orig(p, n, *a, **k)
                ctx.phase = prev
                with ctx.guard():
                    x, lq = out
                    if len(x) != int(n):
                        ctx.violation("C09-pool-size", {"kind": "importance", "requested": int(n), "got": len(x)})
                    if not np.all(ctx.model.in_unit_hypercube(x)):
                        ctx.violation("C09-pool-bounds", {"kind": "importance"})
                    if not np.all(np.isfinite(x["logP"])):
                        ctx.violation("C09-pool-logP-finite", {"kind": "importance"})
                    phys = ctx.model.from_unit_hypercube(x)
                    lp = ctx.model.log_prior(phys)
                    if not np.array_equal(np.asarray(lp, dtype=x["logP"].dtype), x["logP"]):
                        ctx.violation("VAL-logP", {"where": "pool/importance"})
                    ctx.probe("populate_importance")
                return out
            return draw

        _wrap(INS, "update_evidence", mk_update_evidence)
        _wrap(INS, "finalise", mk_finalise)
        _wrap(INS, "determine_log_likelihood_threshold", mk_threshold)
        _wrap(INS, "add_new_proposal", mk_add_new_proposal)
        _wrap(INS, "compute_stopping_criterion", mk_criterion)
        _wrap(OrderedSamples, "remove_samples", mk_remove)
        _wrap(IFP, "draw", mk_draw)

        def mk_ptrain(orig):
            def train(p, *a, **k):
                ctx.clock.advance(ctx.clock.train)
                return orig(p, *a, **k)
            return train

        _wrap(IFP, "train", mk_ptrain)

    # ------------------------------------------------------------------
    def after_threshold(self, ns, samples, method, kwargs, out):
        ctx = self.ctx
        self.thresholds += 1
        it = int(ns.iteration)
        ll = samples["logL"]
        size = len(samples)
        if not np.any(ll == out):
            ctx.violation("C17-threshold-not-a-sample", {"iteration": it, "threshold": float(out)})
            return
        n_below = int(np.sum(ll < out))
        if method == "quantile":
            n0 = ns.determine_threshold_quantile(samples.copy(), **kwargs)
        else:
            n0 = ns.determine_threshold_entropy(samples.copy(), **kwargs)
        n0 = int(n0)
        n1 = max(n0, 1) if ns.min_remove >= 1 else n0
        ties = len(np.unique(ll)) != size
        detail = {"iteration": it, "size": size, "method_n": n0, "removed": n_below,
                  "min_samples": int(ns.min_samples), "min_remove": int(ns.min_remove),
                  "max_samples": ns.max_samples, "nlive": int(ns.nlive)}
        capped = bool(ns.draw_constant and ns.max_samples
                      and ((size - n_below) + ns.nlive) >= ns.max_samples)
        # samples tied with the threshold (clip=True piles draws into one corner) cannot be separated by any
        # likelihood value: the cap is judged on the cut index, i.e. counting the tied samples as removable
        n_tied = int(np.sum(ll == out)) - 1
        if n_tied:
            ctx.probe("ins_threshold_tied_with_other_samples")
        if ns.draw_constant and ns.max_samples and ((size - n_below - n_tied) + ns.nlive) > ns.max_samples:
            ctx.violation("C17-max-samples", dict(detail, tied_with_threshold=n_tied))
        if not ties and ns.min_remove >= 1:
            if (size - n1) < ns.min_samples:
                ctx.probe("ins_clamped_min_samples")
                want_keep = min(size, int(ns.min_samples))
                if (size - n_below) != want_keep and not capped:
                    ctx.violation("C17-min-samples", dict(detail, kept=size - n_below))
            else:
                if n1 < ns.min_remove:
                    ctx.probe("ins_clamped_min_remove")
                if size <= ns.min_remove:
                    ctx.probe("ins_live_set_smaller_than_min_remove")
                # no more than size - 1 samples can lie below a live sample's likelihood
                if n_below < min(int(ns.min_remove), size - 1):
                    ctx.violation("C17-min-remove", detail)
        if capped:
            ctx.probe("ins_clamped_max_samples")
        # weighted quantile ladder on this live set
        from nessai.utils.stats import weighted_quantile

        qs = np.array([0.0, 0.05, 0.25, 0.5, 0.75, 0.95, 1.0])
        lw = samples["logW"].copy()
        if np.all(np.isfinite(lw)):
            vals = np.asarray(weighted_quantile(ll, qs, log_weights=lw, values_sorted=True)).reshape(-1)
            if np.any(np.diff(vals) < -1e-9 * (1 + np.abs(vals[:-1]))):
                ctx.violation("C17-quantile-monotone", {"iteration": it, "values": vals.tolist()})
            lo, hi = float(ll.min()), float(ll.max())
            tol = 1e-9 * (1 + abs(lo) + abs(hi))
            if np.any(vals < lo - tol) or np.any(vals > hi + tol):
                ctx.violation("C17-quantile-range", {"iteration": it, "values": vals.tolist(), "range": [lo, hi]})
            eq = np.asarray(weighted_quantile(ll, qs, log_weights=np.zeros(size), values_sorted=True)).reshape(-1)
            ref = harrell_davis(ll, qs)
            if not oracles.close(eq, ref, rtol=1e-8, atol=1e-8):
                ctx.violation("C17-quantile-equal-weights", {"iteration": it, "got": eq.tolist(), "ref": ref.tolist()})
        ctx.nb.note("threshold", it=it, size=size, method_n=n0, removed=n_below)

    def after_criterion(self, ns, out):
        ctx = self.ctx
        it = int(ns.iteration)
        st = ns.state
        s = ns._ordered_samples
        w = np.asarray(st._weights, dtype=float)
        logZ = float(logsumexp(w) - np.log(w.size))
        ref = {}
        ref["ess"] = oracles.kish_ess(w - logZ)
        ref["log_dZ"] = abs(logZ - ns.history["logZ"][-1]) if it > 0 else np.inf
        x = s.samples
        above = x["logL"] >= s.log_likelihood_threshold
        ref["ratio"] = float(logsumexp((x["logL"] + x["logW"])[above]) - np.log(above.sum()) - logZ) \
            if above.any() else -np.inf
        lp, dp = s.live_points, s.nested_samples
        zl = logsumexp(lp["logL"] + lp["logW"]) - np.log(len(lp)) if lp is not None and len(lp) else -np.inf
        zd = logsumexp(dp["logL"] + dp["logW"]) - np.log(len(dp)) if len(dp) else -np.inf
        ref["ratio_ns"] = float(zl - zd) if len(dp) else np.nan
        Z = np.exp(w.astype(np.longdouble))
        Zh = np.exp(np.longdouble(logZ))
        n = w.size
        u = np.sqrt(np.sum((Z - Zh) ** 2) / (n * (n - 1)))
        ref["fractional_error"] = float(u / Zh)
        ref["Z_err"] = float(np.exp(float(abs(u / Zh))))
        got = {k: getattr(ns, k) for k in ref}
        for k in ref:
            if not oracles.close(got[k], ref[k], rtol=1e-7, atol=1e-9):
                ctx.violation("C15-criterion-value", {"criterion": k, "iteration": it,
                                                      "reported": float(got[k]), "recomputed": float(ref[k])})
        crit = [float(c) for c in out]
        names = list(ns.stopping_criterion)
        for nme, c in zip(names, crit):
            if not oracles.close(c, got[nme], rtol=0, atol=0):
                ctx.violation("C15-criterion-mapping", {"criterion": nme, "iteration": it})
        self.criteria.append({"it": it, "crit": crit, "names": names,
                              "all": {k: float(v) for k, v in got.items()}})
        ctx.nb.note("criterion", it=it, crit=crit)


# documented aliases of the importance sampler's stopping criteria
ALIASES = {"ratio": "ratio", "ratio_all": "ratio", "ratio_ns": "ratio_ns", "Z_err": "Z_err", "evidence_error": "Z_err",
           "log_dZ": "log_dZ", "log_evidence": "log_dZ", "ess": "ess", "fractional_error": "fractional_error"}


def harrell_davis(values, qs):
    values = np.asarray(values, dtype=float)
    n = len(values)
    out = []
    edges = np.arange(n + 1) / n
    for q in np.atleast_1d(qs):
        a, b = q * (n + 1), (1 - q) * (n + 1)
        wts = betainc(a, b, edges[1:]) - betainc(a, b, edges[:-1])
        out.append(np.sum(wts * values))
    return np.array(out)


def result_oracle_ins(ctx, fs, scn):
    ns = fs.ns
    m = ctx.model
    viol = ctx.violation
    run_kwargs = scn.get("run_kwargs", {})
    redraw = bool(run_kwargs.get("redraw_samples"))
    samples = np.asarray(fs.nested_samples)
    n = len(samples)
    if not redraw:
        hist_n = int(ns.n_initial + np.sum(ns.history["n_added"]))
        if n != hist_n:
            viol("RES-INS-count", {"n": n, "levels": hist_n})
        if np.any(np.diff(samples["logL"]) < 0):
            viol("RES-INS-order", {})
    ll = np.asarray(m.ref_log_likelihood(samples), dtype=samples["logL"].dtype)
    if not np.array_equal(ll, samples["logL"]):
        viol("RES-INS-logL", {})
    lp = np.asarray(m.log_prior(samples), dtype=samples["logP"].dtype)
    if not np.array_equal(lp, samples["logP"]):
        viol("RES-INS-logP", {})
    w = samples["logL"] + samples["logW"]
    logZ = float(logsumexp(w) - np.log(n))
    if not oracles.close(fs.logZ, logZ, rtol=1e-9, atol=1e-9):
        viol("RES-INS-logZ", {"reported": float(fs.logZ), "recomputed": logZ})
    Z = np.exp(w.astype(np.longdouble))
    Zh = np.exp(np.longdouble(logZ))
    err = float(abs(np.sqrt(np.sum((Z - Zh) ** 2) / (n * (n - 1))) / Zh))
    if not oracles.close(fs.logZ_error, err, rtol=1e-7, atol=1e-12):
        viol("RES-INS-logZ-error", {"reported": float(fs.logZ_error), "recomputed": err})
    if not (np.isfinite(fs.logZ) and np.isfinite(fs.logZ_error) and fs.logZ_error > 0):
        # not part of C05 (finiteness of the uncertainty is C06's calibration clause): probe only
        ctx.probe("result_error_not_finite_positive")
    st = ns.final_state if redraw or ns.iid_samples is not None else ns.state
    lpw = np.asarray(st.log_posterior_weights)
    if not oracles.close(lpw, w - logZ, rtol=1e-9, atol=1e-9):
        viol("RES-INS-weights", {"n": len(lpw)})
    d = ns.get_result_dictionary()
    if not (oracles.close(d["log_evidence"], fs.logZ, rtol=0, atol=0)
            and oracles.close(d["log_evidence_error"], fs.logZ_error, rtol=0, atol=0)):
        viol("RES-INS-dict-evidence", {"dict": [d["log_evidence"], d["log_evidence_error"]],
                                       "sampler": [float(fs.logZ), float(fs.logZ_error)]})
    if np.asarray(d["samples"]).tobytes() != samples.tobytes():
        viol("RES-INS-dict-samples", {})
    if not np.array_equal(np.asarray(d["log_posterior_weights"]), lpw):
        viol("RES-INS-dict-weights", {})
    if d["total_likelihood_evaluations"] != ns.model.likelihood_evaluations:
        viol("RES-INS-dict-evals", {})
    post = getattr(fs, "posterior_samples", None)
    ctx.nb.note("result", sampler="ins", logZ=float(fs.logZ), err=float(fs.logZ_error), n=n,
                iteration=int(ns.iteration), finalised=bool(ns.finalised),
                evals=int(ns.model.likelihood_evaluations),
                sampling_time=ns.sampling_time.total_seconds(),
                training_time=ns.training_time.total_seconds(),
                likelihood_time=ns.model.likelihood_evaluation_time.total_seconds(),
                n_post=(len(post) if post is not None else None))


def stop_oracle_ins(ctx, fs, scn):
    ns = fs.ns
    mon = ctx.mons.get("ins")
    if mon is None:
        return
    recs = mon.criteria
    # the rule as the USER configured it (documented aliases), not as the sampler stored it
    kw = scn.get("kwargs", {})
    user_c = kw.get("stopping_criterion", "ratio")
    user_t = kw.get("tolerance", 0.0)
    user_c = [user_c] if isinstance(user_c, str) else list(user_c)
    user_t = [float(t) for t in user_t] if isinstance(user_t, (list, tuple)) else [float(user_t)]
    canon = [ALIASES[c] for c in user_c]
    tol = user_t
    stop_any = kw.get("check_criteria", "any") == "any"
    min_it = kw.get("min_iteration", None)
    min_it = -1 if min_it is None else int(min_it)
    max_it = kw.get("max_iteration", None)
    max_it = np.inf if max_it is None else int(max_it)

    def reached(values):
        flags = [values[cn] <= ti for cn, ti in zip(canon, tol)]
        return any(flags) if stop_any else all(flags)

    for i, r in enumerate(recs):
        k = r["it"]  # iteration index before increment
        stop_now = (reached(r["all"]) and (k + 1) >= min_it) or (k + 1) >= max_it
        last = i == len(recs) - 1
        if stop_now and not last:
            ctx.violation("C15-stop-late", {"iteration": k, "criteria": canon,
                                            "values": [r["all"][c] for c in canon], "tolerance": tol})
        if last and not stop_now:
            ctx.violation("C15-stop-early", {"iteration": k, "criteria": canon,
                                             "values": [r["all"][c] for c in canon], "tolerance": tol,
                                             "min_iteration": int(min_it),
                                             "max_iteration": None if np.isinf(max_it) else int(max_it)})
    h = ns.history["stopping_criteria"]
    for r in recs:
        k = r["it"]
        for name, v in r["all"].items():
            if name in h and k < len(h[name]):
                hv = h[name][k]
                hv = float(hv)
                if not (hv == v or (np.isnan(hv) and np.isnan(v))):
                    ctx.violation("C15-history", {"iteration": k, "criterion": name,
                                                  "history": float(hv), "compared": float(v)})
    ctx.nb.note("stop_checked", n=len(recs))
