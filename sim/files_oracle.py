"""C19 (real-run clause): the result file written at the end of a run reads back,
field by field and value by value, to the in-memory results; config.json parses
with the standard JSON reader."""
import json
import math
import os

import numpy as np


def _h5_to_obj(node):
    import h5py

    if isinstance(node, h5py.Dataset):
        v = node[()]
        if isinstance(v, bytes):
            v = v.decode()
        if isinstance(v, str) and v == "__none__":
            return None
        return v
    out = {}
    for k in node.keys():
        out[k] = _h5_to_obj(node[k])
    return out


def _num_equal(a, b):
    if isinstance(a, (str, bytes)) != isinstance(b, (str, bytes)):
        return False  # a number written as text does not read back as the number
    try:
        a = float(a)
        b = float(b)
    except (TypeError, ValueError):
        return False
    if math.isnan(a) and math.isnan(b):
        return True
    return a == b


def compare(mem, disk, path, out, fmt):
    """Append mismatches between an in-memory value and its read-back value."""
    if len(out) > 5:
        return
    if mem is None:
        if disk is not None:
            out.append((path, "None", repr(disk)[:80]))
        return
    if isinstance(mem, dict):
        if not isinstance(disk, dict):
            out.append((path, "dict", type(disk).__name__))
            return
        for k, v in mem.items():
            if str(k) not in disk:
                out.append((path + "/" + str(k), "present", "missing"))
                continue
            compare(v, disk[str(k)], path + "/" + str(k), out, fmt)
        return
    if isinstance(mem, np.ndarray) and mem.dtype.names:
        names = mem.dtype.names
        if isinstance(disk, np.ndarray) and disk.dtype.names:
            if disk.shape != mem.shape or tuple(disk.dtype.names) != tuple(names):
                out.append((path, f"struct{mem.shape}{names}", f"struct{disk.shape}{disk.dtype.names}"))
                return
            for n in names:
                compare(np.asarray(mem[n]), np.asarray(disk[n]), path + "." + n, out, fmt)
            return
        if isinstance(disk, dict):  # live_points_to_dict form
            for n in names:
                if n not in disk:
                    out.append((path + "." + n, "present", "missing"))
                else:
                    compare(np.asarray(mem[n]), disk[n], path + "." + n, out, fmt)
            return
        if isinstance(disk, list):  # tolist() form: list of records
            if len(disk) != len(mem):
                out.append((path, f"len {len(mem)}", f"len {len(disk)}"))
                return
            rows = mem.tolist()
            for i, (r, d) in enumerate(zip(rows, disk)):
                if len(r) != len(d) or not all(_num_equal(x, y) for x, y in zip(r, d)):
                    out.append((f"{path}[{i}]", repr(r)[:80], repr(d)[:80]))
                    return
            return
        out.append((path, "structured array", type(disk).__name__))
        return
    if isinstance(mem, (list, tuple, np.ndarray)):
        m = list(mem) if not isinstance(mem, np.ndarray) else mem
        if isinstance(disk, np.ndarray) and disk.dtype.kind in "fiub" and not isinstance(mem, np.ndarray):
            try:
                m = np.asarray(mem, dtype=float)
            except (TypeError, ValueError):
                m = mem
        if isinstance(m, np.ndarray) and m.dtype.kind in "fiub":
            try:
                d = np.asarray(disk, dtype=float)
            except (TypeError, ValueError):
                out.append((path, f"array{m.shape}", repr(disk)[:80]))
                return
            if d.shape != m.shape:
                out.append((path, f"shape {m.shape}", f"shape {d.shape}"))
                return
            mf = m.astype(float)
            ok = (mf == d) | (np.isnan(mf) & np.isnan(d))
            if not np.all(ok):
                i = int(np.flatnonzero(~ok.reshape(-1))[0])
                out.append((f"{path}[{i}]", repr(mf.reshape(-1)[i]), repr(d.reshape(-1)[i])))
            return
        try:
            dl = list(disk)
        except TypeError:
            out.append((path, f"list[{len(m)}]", repr(disk)[:80]))
            return
        if len(dl) != len(m):
            out.append((path, f"len {len(m)}", f"len {len(dl)}"))
            return
        for i, (x, y) in enumerate(zip(m, dl)):
            compare(x, y, f"{path}[{i}]", out, fmt)
        return
    if isinstance(mem, (bool, np.bool_)):
        if bool(mem) != bool(disk):
            out.append((path, repr(mem), repr(disk)))
        return
    if isinstance(mem, (int, float, np.integer, np.floating)):
        if not _num_equal(mem, disk):
            out.append((path, repr(mem), repr(disk)[:80]))
        return
    if isinstance(mem, str):
        d = disk.decode() if isinstance(disk, bytes) else disk
        if mem != d:
            out.append((path, mem[:80], repr(d)[:80]))
        return
    # anything else is stringified by the encoder; only presence is checked


def check_files(ctx, fs, scn):
    from nessai.livepoint import live_points_to_dict  # noqa: F401

    out_dir = scn.get("output", "out")
    ext = scn.get("kwargs", {}).get("result_extension", "hdf5")
    path = os.path.join(out_dir, "result." + ext)
    from .disk import _real_exists, _real_open

    # configuration file written at start-up
    cfg = os.path.join(out_dir, "config.json")
    try:
        with _real_open(cfg) as f:
            json.load(f)
    except Exception as e:
        ctx.violation("C19-config-json", {"error": f"{type(e).__name__}: {e}"[:300]})
    if not _real_exists(path):
        ctx.violation("C19-result-missing", {"path": path})
        return
    mem = fs.ns.get_result_dictionary()
    mem["posterior_samples"] = fs.posterior_samples
    if hasattr(fs, "initial_posterior_samples"):
        mem["initial_posterior_samples"] = fs.initial_posterior_samples
    if ext == "json":
        with _real_open(path) as f:
            disk = json.load(f)
    else:
        import h5py

        with h5py.File(path, "r") as f:
            disk = _h5_to_obj(f)
    bad = []
    compare(mem, disk, "", bad, ext)
    if bad:
        ctx.violation("C19-readback", {"format": ext, "mismatches": [list(b) for b in bad[:4]]})
    ctx.probe("result_file_checked_" + ("json" if ext == "json" else "hdf5"))
    h = mem.get("history") or {}
    if h.get("checkpoint_iterations"):
        ctx.probe("result_with_checkpoint_iterations")
    flat = json.dumps(mem, default=lambda o: None if o is None else str(type(o)))
    if "NaN" in flat or "Infinity" in flat:
        ctx.probe("result_with_nonfinite_values")
    if any(v is None for v in mem.values()):
        ctx.probe("result_with_none_entries")
    ctx.nb.note("files_checked", ext=ext, keys=len(mem))
