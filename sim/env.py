"""Process bootstrap: pin everything the interpreter would otherwise randomise.

``bootstrap()`` must be the first thing a driver calls. It re-executes the
interpreter once with a pinned ``PYTHONHASHSEED`` (pickle bytes of nessai's
set-ordered ``__getstate__`` dictionaries depend on it), single-threaded
numeric libraries (so ``fork`` is safe and float reductions are ordered), and
progress bars off. ``VERIF_REPO`` (default ``/repo``) is put first on
``sys.path`` so a scratch copy of the repository can be checked.
"""
import os
import sys

_PINNED = {
    "OMP_NUM_THREADS": "1",
    "MKL_NUM_THREADS": "1",
    "OPENBLAS_NUM_THREADS": "1",
    "NUMEXPR_NUM_THREADS": "1",
    "TQDM_DISABLE": "1",
    "MPLBACKEND": "Agg",
    "CUDA_VISIBLE_DEVICES": "",
}


def bootstrap(hashseed=None):
    want = str(hashseed if hashseed is not None else os.environ.get("VERIF_HASHSEED", "0"))
    need = os.environ.get("PYTHONHASHSEED") != want or os.environ.get("NESSAI_SIM_BOOT") != "1"
    if need:
        env = dict(os.environ)
        env.update(_PINNED)
        env["PYTHONHASHSEED"] = want
        env["NESSAI_SIM_BOOT"] = "1"
        env.setdefault("PYTHONDONTWRITEBYTECODE", "1")
        os.execve(sys.executable, [sys.executable] + sys.argv, env)
    repo = os.environ.get("VERIF_REPO", "/repo")
    if repo not in sys.path[:1]:
        sys.path.insert(0, repo)
    here = os.path.dirname(os.path.dirname(os.path.abspath(__file__)))
    if here not in sys.path:
        sys.path.insert(1, here)


def repo_path():
    return os.environ.get("VERIF_REPO", "/repo")


def scratch_root():
    root = os.environ.get("VERIF_SCRATCH", "/dev/shm")
    if not os.path.isdir(root):
        root = "/var/tmp"
    return root


_IMPORTED = False


def import_system():
    """Import nessai/torch once in the template process (never construct)."""
    global _IMPORTED
    if _IMPORTED:
        return
    import logging
    import warnings

    warnings.filterwarnings("ignore")
    import numpy  # noqa
    import torch

    torch.set_num_threads(1)
    try:
        torch.set_num_interop_threads(1)
    except RuntimeError:
        pass
    import nessai  # noqa
    import nessai.flowsampler  # noqa
    import nessai.samplers.importancesampler  # noqa
    import nessai.proposal.importance  # noqa
    import nessai.proposal.augmented  # noqa
    import nessai.experimental.proposal.clustering  # noqa
    import nessai.gw.proposal  # noqa
    import nessai.utils.multiprocessing  # noqa
    import h5py  # noqa

    # modules torch imports lazily on the first optimiser step / no_grad exit
    # (about 2 s per fresh child otherwise); importing is not running
    for name in ("torch._dynamo", "torch.distributed.tensor", "torch.optim", "torch.utils.data",
                 "scipy.stats", "scipy.special", "pandas"):
        try:
            __import__(name)
        except Exception:  # pragma: no cover
            pass

    logging.getLogger("nessai").setLevel(logging.CRITICAL)
    logging.getLogger("nessai").propagate = False
    logging.getLogger("glasflow").setLevel(logging.CRITICAL)
    src = os.path.dirname(os.path.abspath(nessai.__file__))
    want = os.path.join(os.path.realpath(repo_path()), "nessai")
    if os.path.realpath(src) != want:
        raise RuntimeError(f"nessai imported from {src}, expected {want}")
    _IMPORTED = True
