"""Swarm-style scenario generators: every run varies sizes, workload mix,
checkpoint triggers, proposal classes, latent priors, reparameterisations,
flow type and the clock costs. All values are JSON-serialisable.
"""
from . import rng as R


def tiny_flow(r, ftypes=("realnvp",)):
    ft = r.choice(list(ftypes))
    cfg = dict(n_blocks=r.choice([1, 2]), n_neurons=r.choice([2, 4, 8]), n_layers=1, ftype=ft)
    if ft == "realnvp":
        cfg["batch_norm_between_layers"] = r.random() < 0.2
        if r.random() < 0.2:
            cfg["linear_transform"] = r.choice(["lu", "permutation", "svd", None])
    elif ft == "nsf":
        cfg["num_bins"] = 4
    return cfg


def training_config(r):
    tc = dict(max_epochs=r.choice([1, 2, 3, 5]), patience=r.choice([2, 5]),
              batch_size=r.choice([16, 1000]))
    if r.random() < 0.2:
        tc["val_size"] = r.choice([0.0, 0.2])
    return tc


LATENT = ["truncated_gaussian", "gaussian", "uniform", "uniform_nsphere", "uniform_nball", "flow"]


def ns_scenario(seed, n, profile="swarm"):
    """Scenario n of the standard-sampler swarm under VERIF_SEED=seed."""
    r = R.stream(seed, "ns-scenario", n)
    dims = r.choice([2, 2, 3, 4])
    mk = r.random()
    model = {"name": "gauss", "dims": dims}
    kwargs = {}
    if mk < 0.15:
        model = {"name": "gauss_nonuniform", "dims": dims}
    elif mk < 0.25:
        model = {"name": "gauss_analytic", "dims": dims}
        kwargs["analytic_priors"] = True
    elif mk < 0.30:
        model = {"name": "gauss_scalar", "dims": 2}
    elif mk < 0.42:
        model = {"name": "gauss_constrained", "dims": dims}
    elif mk < 0.52:
        model = {"name": "gauss_quantised", "dims": 2}
    elif mk < 0.62:
        model = {"name": "gauss_sloppy_prior", "dims": dims}
    elif mk < 0.70:
        model = {"name": "gauss_x0only", "dims": 2}
    nlive = r.choice([10, 15, 20, 30, 40, 60])
    kwargs.update(nlive=nlive, seed=R.seed32(seed, "run-seed", n), plot=False,
                  stopping=r.choice([0.1, 0.5, 1.0, 0.05]))
    # checkpoint trigger
    ck = r.random()
    if ck < 0.55:
        kwargs.update(checkpoint_on_iteration=True, checkpoint_interval=r.choice([3, 7, 10, 20, 40]))
    elif ck < 0.9:
        kwargs.update(checkpoint_on_iteration=False, checkpoint_interval=r.choice([0.05, 0.2, 0.5, 2.0]))
    else:
        kwargs.update(checkpoint_on_iteration=True, checkpoint_interval=10 ** 6)
    # uninformed phase
    mu = r.random()
    if mu < 0.08:
        kwargs["maximum_uninformed"] = False
    elif mu < 0.6:
        kwargs["maximum_uninformed"] = r.choice([nlive // 2, nlive, 5])
    # proposal class and population options
    pc = r.random()
    if pc < 0.15:
        kwargs["flow_proposal_class"] = "AugmentedFlowProposal"
        kwargs["augment_dims"] = r.choice([1, 2])
    elif pc < 0.22 and profile != "noclustering" and nlive >= 20:
        # faiss k-means needs at least 16 training points
        kwargs["flow_proposal_class"] = "ClusteringFlowProposal"
    if pc >= 0.22 and pc < 0.32 and mk >= 0.70:
        # gravitational-wave proposals with their default reparameterisations (no optional dependency needed)
        kwargs["flow_proposal_class"] = r.choice(["GWFlowProposal", "GWFlowProposal", "AugmentedGWFlowProposal"])
        model = {"name": "gauss_gw", "dims": r.choice([3, 4, 5])}
        kwargs.pop("analytic_priors", None)
    lp = r.choice(LATENT + ["truncated_gaussian"] * 3)
    if kwargs.get("flow_proposal_class") in ("AugmentedFlowProposal", "AugmentedGWFlowProposal"):
        lp = "truncated_gaussian"
    kwargs["latent_prior"] = lp
    if lp in ("gaussian", "uniform", "flow"):
        kwargs["constant_volume_mode"] = False
    elif r.random() < 0.3:
        kwargs["constant_volume_mode"] = False
    kwargs["poolsize"] = r.choice([nlive, 2 * nlive, max(5, nlive // 2)])
    if r.random() < 0.3:
        kwargs["drawsize"] = r.choice([kwargs["poolsize"], 4 * kwargs["poolsize"], 16])
    if r.random() < 0.2 and kwargs.get("constant_volume_mode", True):
        # (with a data-dependent radius and tiny flows this mode routinely runs to its 1e6-draw cap: minutes of
        # wall time in numpy concatenations for few nessai steps; covered by C20, not worth it in every swarm)
        kwargs["accumulate_weights"] = True
    if r.random() < 0.15:
        kwargs["truncate_log_q"] = True
    if r.random() < 0.2:
        kwargs["update_poolsize"] = False
    if r.random() < 0.15:
        kwargs["check_acceptance"] = True
    # reparameterisations
    rp = r.random()
    names = [f"x{i}" for i in range(model.get("dims", 2))]
    if model["name"] == "gauss_gw":
        rp = 1.0
    if rp < 0.2:
        kwargs["reparameterisations"] = {names[0]: "default", names[1]: "z-score"}
    elif rp < 0.3:
        kwargs["reparameterisations"] = {"z-score": {"parameters": names}}
    elif rp < 0.4:
        kwargs["reparameterisations"] = {names[0]: "inversion"}
    elif rp < 0.5:
        kwargs["reparameterisations"] = {"rescaletobounds": {"parameters": names, "update_bounds": True}}
    elif rp < 0.55:
        kwargs["reparameterisations"] = {"null": {"parameters": names}}
    elif (rp < 0.68 or model["name"] == "gauss_x0only") and model["name"] in (
            "gauss", "gauss_quantised", "gauss_sloppy_prior", "gauss_x0only"):
        # uniform priors: rejection sampling in the rescaled space with the prime prior (no bounds check there)
        kwargs["reparameterisations"] = {"rescaletobounds": {"parameters": names, "update_bounds": True,
                                                             "prior": "uniform"}}
        kwargs["training_frequency"] = r.choice([5, 10])
        kwargs["cooldown"] = 5
    elif rp < 0.72:
        kwargs["fallback_reparameterisation"] = r.choice(["rescaletobounds", None, "zscore"])
    if kwargs.get("flow_proposal_class") in ("AugmentedFlowProposal", "AugmentedGWFlowProposal"):
        # the augmented proposal needs a mask: coupling flows only
        kwargs["flow_config"] = tiny_flow(r, ("realnvp",))
    else:
        kwargs["flow_config"] = tiny_flow(r, ("realnvp", "realnvp", "realnvp", "maf", "nsf"))
    if kwargs.get("maximum_uninformed") is False:
        # the flow proposal then also draws the initial live points, with no
        # worst point to compute a radius from: only the fixed-radius
        # (constant volume) configuration can do that
        kwargs["latent_prior"] = "truncated_gaussian"
        kwargs.pop("constant_volume_mode", None)
        kwargs.pop("check_acceptance", None)
    kwargs["training_config"] = training_config(r)
    # training policies
    if r.random() < 0.3:
        kwargs["training_frequency"] = r.choice([5, 10, nlive])
    if r.random() < 0.3:
        kwargs["cooldown"] = r.choice([1, 5, 20])
    if r.random() < 0.2:
        kwargs["train_on_empty"] = False
        kwargs.setdefault("training_frequency", 10)
        kwargs["cooldown"] = 5
    if r.random() < 0.2:
        kwargs["reset_weights"] = r.choice([True, 2])
    if r.random() < 0.1:
        kwargs["reset_permutations"] = r.choice([True, 2])
    if r.random() < 0.1:
        kwargs["reset_flow"] = 2
    if r.random() < 0.15:
        kwargs["memory"] = r.choice([5, nlive])
    if r.random() < 0.2:
        kwargs["checkpoint_on_training"] = True
    if r.random() < 0.2:
        kwargs["shrinkage_expectation"] = "t"
    if r.random() < 0.15:
        kwargs["max_iteration"] = r.choice([20, 50, 3 * nlive])
    clock = {"per_point": r.choice([1e-3, 1e-2]), "train": r.choice([0.3, 1.0, 5.0]),
             "io": 0.01, "populate": r.choice([0.02, 0.2])}
    scn = {"sampler": "ns", "model": model, "kwargs": kwargs, "run_kwargs": {}, "clock": clock}
    if r.random() < 0.3:
        scn["pool"] = {"k": r.choice([1, 2, 3, 4]), "sched": r.randrange(10 ** 6)}
        if r.random() < 0.5:
            kwargs["likelihood_chunksize"] = r.choice([1, 3, 7, 1000])
    return scn


def simple_ns(seed, n, nlive=30, **over):
    """A plain standard-sampler scenario used by the fault-enumeration checks."""
    kwargs = dict(nlive=nlive, seed=R.seed32(seed, "run-seed", n), plot=False, stopping=0.1,
                  checkpoint_on_iteration=True, checkpoint_interval=20, poolsize=nlive,
                  flow_config=dict(n_blocks=2, n_neurons=4, n_layers=1, batch_norm_between_layers=False),
                  training_config=dict(max_epochs=3, patience=3))
    kwargs.update(over)
    return {"sampler": "ns", "model": {"name": "gauss", "dims": 2}, "kwargs": kwargs, "run_kwargs": {},
            "clock": {"per_point": 1e-3, "train": 0.5, "io": 0.01, "populate": 0.05}}
