"""Simulated disk and the process-kill fault model.

A real scratch directory (tmpfs) is the disk. Inside an incarnation every
state-changing file operation on a path under the disk root is a numbered *fs
event*; the fault plan can stop the process after event ``i`` or inside write
event ``i`` at byte prefix ``L`` (``os._exit(137)``: no ``finally``, no
``with`` exit, no buffered flush — what SIGKILL leaves).

Interposed: ``builtins.open`` for writing (binary: unbuffered, each
``write()`` is an event; text: one logical write at close), ``os.rename`` /
``os.replace`` (and therefore ``shutil.move``), ``os.remove`` / ``os.unlink``,
``os.makedirs``, ``torch.save`` (serialised to bytes with the real
``torch.save``, then written through this layer as one sequential write: zip
archives are written front to back), ``h5py`` result files as one opaque
event. Read-only probes (``os.path.exists``) are logged as probes and define
no event.
"""
import builtins
import hashlib
import io
import os
import shutil

KILL_EXIT = 137

_real_open = builtins.open
_real_rename = os.rename
_real_replace = os.replace
_real_remove = os.remove
_real_unlink = os.unlink
_real_makedirs = os.makedirs
_real_exists = os.path.exists


class Disk:
    def __init__(self, root, notebook, clock, plan=None, record_trace=True, snapshot_dir=None,
                 snapshot_on=None):
        self.root = os.path.realpath(root)
        self.nb = notebook
        self.clock = clock
        self.n = 0  # next event index
        self.kill_after = {}
        self.kill_inside = {}
        for f in plan or []:
            if f["kind"] == "kill_fs":
                if f.get("prefix") is None:
                    self.kill_after[int(f["event"])] = f
                else:
                    self.kill_inside[int(f["event"])] = f
        self.record_trace = record_trace
        self.snapshot_dir = snapshot_dir
        self.snapshot_on = snapshot_on  # callable(relpath_dst) -> name or None
        self.reads = []
        self.fired = None
        self.keep_weights_bytes = False
        # a signal that arrives while file-system event e is in progress (lands inside a checkpoint / weights save)
        self.signal_at = {int(f["event"]): f for f in plan or [] if f["kind"] == "signal_fs"}
        self.deliver_signal = None  # set by the incarnation: callable(fault)
        # kill during the signal handler's own checkpoint: offsets counted from the event index at delivery
        self.signal_base = None
        self.kill_after_signal = {}
        for f in plan or []:
            if f["kind"] == "kill_fs_after_signal":
                self.kill_after_signal[int(f["offset"])] = f

    # ------------------------------------------------------------------
    def rel(self, path):
        try:
            p = os.path.realpath(os.fspath(path))
        except TypeError:
            return None
        if p == self.root or p.startswith(self.root + os.sep):
            return os.path.relpath(p, self.root)
        return None

    def _die(self, fault, ev):
        self.fired = fault
        self.nb.note("kill", fault=fault, event=ev)
        os._exit(KILL_EXIT)

    def event(self, kind, rel, nbytes=None, sha=None, do=None, data=None, fd=None, extra=None):
        """Perform a state-changing operation as event number self.n."""
        i = self.n
        self.n += 1
        rec = {"e": i, "op": kind, "path": rel}
        if nbytes is not None:
            rec["nbytes"] = nbytes
        if sha is not None:
            rec["sha"] = sha
        if extra:
            rec.update(extra)
        if getattr(self, "current_ckpt", None) is not None:
            rec["ckpt"] = self.current_ckpt  # the sampler checkpoint (ordinal) this event belongs to
        sf = self.signal_at.pop(i, None)
        if sf is not None and self.deliver_signal is not None:
            self.deliver_signal(sf)  # the handler's own file operations are later events
        inside = self.kill_inside.get(i)
        rel_fault = None
        if self.signal_base is not None:
            rel_fault = self.kill_after_signal.get(i - self.signal_base)
            if rel_fault is not None and rel_fault.get("prefix") is not None:
                inside = rel_fault
        if inside is not None and data is not None:
            L = int(inside["prefix"])
            L = max(0, min(L, len(data)))
            if fd is not None:
                if L:
                    os.write(fd, data[:L])
            rec["torn_at"] = L
            self.nb.note("fs", **rec)
            self._die(inside, rec)
        if do is not None:
            do()
        elif data is not None and fd is not None:
            view = memoryview(data)
            while len(view):
                w = os.write(fd, view)
                view = view[w:]
        self.clock.advance(self.clock.io)
        if self.record_trace:
            self.nb.note("fs", **rec)
        after = self.kill_after.get(i)
        if after is None and rel_fault is not None and rel_fault.get("prefix") is None:
            after = rel_fault
        if after is not None:
            self._die(after, rec)
        if self.snapshot_on is not None:
            name = self.snapshot_on(kind, rel, (extra or {}).get("dst"), i)
            if name:
                self.snapshot(name)
        return i

    # ------------------------------------------------------------------
    def install(self):
        disk = self

        def sim_open(file, mode="r", *args, **kwargs):
            rel = disk.rel(file) if isinstance(file, (str, bytes, os.PathLike)) else None
            if rel is None:
                return _real_open(file, mode, *args, **kwargs)
            if not any(c in mode for c in "wax+"):
                disk.reads.append(rel)
                if disk.record_trace:
                    disk.nb.note("fsread", path=rel)
                return _real_open(file, mode, *args, **kwargs)
            return SimFile(disk, file, rel, mode, kwargs.get("encoding"))

        def sim_rename(src, dst, *a, **k):
            rs, rd = disk.rel(src), disk.rel(dst)
            if rs is None and rd is None:
                return _real_rename(src, dst, *a, **k)

            def do():
                _real_rename(src, dst, *a, **k)

            disk.event("rename", rs, do=do, extra={"dst": rd})

        def sim_replace(src, dst, *a, **k):
            rs, rd = disk.rel(src), disk.rel(dst)
            if rs is None and rd is None:
                return _real_replace(src, dst, *a, **k)

            def do():
                _real_replace(src, dst, *a, **k)

            disk.event("rename", rs, do=do, extra={"dst": rd})

        def sim_remove(path, *a, **k):
            r = disk.rel(path)
            if r is None:
                return _real_remove(path, *a, **k)
            disk.event("unlink", r, do=lambda: _real_remove(path, *a, **k))

        def sim_makedirs(name, mode=0o777, exist_ok=False):
            r = disk.rel(name)
            if r is None or os.path.isdir(name):
                return _real_makedirs(name, mode, exist_ok)
            disk.event("mkdir", r, do=lambda: _real_makedirs(name, mode, exist_ok))

        def sim_exists(path):
            res = _real_exists(path)
            if disk.record_trace:
                try:
                    r = disk.rel(path)
                except Exception:
                    r = None
                if r is not None and ("resume" in r or r.endswith(".pt") or r.endswith(".old")):
                    disk.nb.note("fsprobe", path=r, exists=bool(res))
            return res

        builtins.open = sim_open
        io.open = sim_open
        os.rename = sim_rename
        os.replace = sim_replace
        os.remove = sim_remove
        os.unlink = sim_remove
        os.makedirs = sim_makedirs
        os.path.exists = sim_exists

        import torch

        real_save = torch.save
        self._real_torch_save = real_save

        def sim_torch_save(obj, f, *a, **k):
            rel = disk.rel(f) if isinstance(f, (str, bytes, os.PathLike)) else None
            if isinstance(f, SimFile):
                out = real_save(obj, f, *a, **k)
                data = b"".join(f._bin)
                if disk.keep_weights_bytes and disk.snapshot_dir:
                    with _real_open(os.path.join(disk.snapshot_dir, f"weights_e{f.create_event}.bin"), "wb") as fh:
                        fh.write(data)
                disk.nb.note("weights_saved", path=f.rel, nbytes=len(data),
                             sha=hashlib.sha1(data).hexdigest(), mhash=_state_dict_hash(obj))
                return out
            if rel is None:
                return real_save(obj, f, *a, **k)
            buf = io.BytesIO()
            real_save(obj, buf, *a, **k)
            data = buf.getvalue()
            if disk.keep_weights_bytes and disk.snapshot_dir:
                with _real_open(os.path.join(disk.snapshot_dir, f"weights_e{disk.n}.bin"), "wb") as fh:
                    fh.write(data)
            sf = SimFile(disk, f, rel, "wb", None)
            sf.write(data)
            sf.close()
            disk.nb.note("weights_saved", path=rel, nbytes=len(data),
                         sha=hashlib.sha1(data).hexdigest(), mhash=_state_dict_hash(obj))

        torch.save = sim_torch_save

        real_load = torch.load

        def sim_torch_load(f, *a, **k):
            rel = disk.rel(f) if isinstance(f, (str, bytes, os.PathLike)) else None
            if rel is not None:
                disk.reads.append(rel)
                try:
                    with _real_open(f, "rb") as fh:
                        sha = hashlib.sha1(fh.read()).hexdigest()
                except OSError:
                    sha = None
                disk.nb.note("weights_load", path=rel, sha=sha)
            return real_load(f, *a, **k)

        torch.load = sim_torch_load

        try:
            import nessai.utils.io as nio

            real_h5 = nio.save_dict_to_hdf5

            def sim_h5(d, filename):
                rel = disk.rel(filename)
                if rel is None:
                    return real_h5(d, filename)
                disk.event("h5write", rel, do=lambda: real_h5(d, filename))

            nio.save_dict_to_hdf5 = sim_h5
            import nessai.flowsampler as nfs

            if getattr(nfs, "save_dict_to_hdf5", None) is real_h5:
                nfs.save_dict_to_hdf5 = sim_h5
        except Exception:  # pragma: no cover
            raise

    def snapshot(self, name):
        if not self.snapshot_dir:
            return
        dst = os.path.join(self.snapshot_dir, name)
        if _real_exists(dst):
            return
        shutil.copytree(self.root, dst, copy_function=shutil.copy2)
        self.nb.note("snapshot", name=name)


def _state_dict_hash(sd):
    import numpy as np

    try:
        m = hashlib.sha1()
        for k, v in sorted(sd.items()):
            m.update(k.encode())
            m.update(np.ascontiguousarray(v.detach().cpu().numpy()).tobytes())
        return m.hexdigest()[:16]
    except Exception:
        return None


class SimFile:
    """File object handed to nessai for writes under the disk root."""

    def __init__(self, disk, path, rel, mode, encoding):
        self.disk = disk
        self.rel = rel
        self.path = path
        self.mode = mode
        self.binary = "b" in mode
        self.encoding = encoding or "utf-8"
        self.closed = False
        self.name = path
        flags = os.O_WRONLY | os.O_CREAT
        if "a" in mode:
            flags |= os.O_APPEND
        elif "x" in mode:
            flags |= os.O_EXCL
        else:
            flags |= os.O_TRUNC
        self._flags = flags
        self.fd = None

        def do():
            self.fd = os.open(path, flags, 0o644)

        self.create_event = disk.n
        disk.event("create", rel, do=do)
        self._text = [] if not self.binary else None
        # consecutive binary writes are one logical write event at close; its
        # byte prefixes (incl. the real write() boundaries, kept in "bounds")
        # are exactly the durable states an unbuffered writer could leave
        self._bin = []
        self._pos = 0
        self._bounds = []

    def write(self, data):
        if self.closed:
            raise ValueError("I/O operation on closed file")
        if self.binary:
            b = bytes(data)
            self._bin.append(b)
            self._pos += len(b)
            if len(self._bounds) < 256:
                self._bounds.append(self._pos)
            return len(b)
        self._text.append(data)
        return len(data)

    def writelines(self, lines):
        for line in lines:
            self.write(line)

    def flush(self):
        pass

    def fileno(self):
        return self.fd

    def writable(self):
        return True

    def readable(self):
        return False

    def seekable(self):
        return False

    def tell(self):
        return self._pos

    def close(self):
        if self.closed:
            return
        if not self.binary:
            b = "".join(self._text).encode(self.encoding)
            self.disk.event("write", self.rel, nbytes=len(b), data=b, fd=self.fd)
        else:
            b = b"".join(self._bin)
            self.disk.event("write", self.rel, nbytes=len(b), data=b, fd=self.fd,
                            extra={"bounds": self._bounds[:64], "nwrites": len(self._bin)})
        self.closed = True
        os.close(self.fd)

    def __enter__(self):
        return self

    def __exit__(self, *exc):
        self.close()
        return False
