"""Parent-side oracles over the recorded history of a world (lab notebook)."""
EPS = 1e-6


def _by(records, kind, inc=None):
    return [r for r in records if r["k"] == kind and (inc is None or r["i"] == inc)]


def resume_name(world):
    return world["scenario"]["kwargs"].get("resume_file", "nested_sampler_resume.pkl")


def completed_checkpoints(records, world, upto_inc):
    """Ordered list of (inc, ordinal) of checkpoints whose final rename
    completed in incarnations < upto_inc (the durable lineage)."""
    name = resume_name(world)
    out = []
    for r in records:
        if r["i"] >= upto_inc:
            continue
        if r["k"] == "fs" and r["op"] == "rename" and (r.get("dst") or "").endswith(name) and "torn_at" not in r:
            out.append(r)
    # map each completed rename to the checkpoint in flight: ordinal = k-th rename in that incarnation
    res = []
    per_inc = {}
    for r in out:
        per_inc[r["i"]] = per_inc.get(r["i"], 0) + 1
        # the event names its checkpoint: one taken by a signal handler nests inside (and outlives) an unfinished one
        res.append((r["i"], r["ckpt"] if r.get("ckpt") is not None else per_inc[r["i"]]))
    return res


def lineage(records, world, n_inc):
    """For each incarnation i >= 1 the (inc, ordinal) of the checkpoint it must
    have been restored from (None = fresh start expected)."""
    lin = {}
    for i in range(1, n_inc):
        done = completed_checkpoints(records, world, i)
        lin[i] = done[-1] if done else None
    return lin


def judge_resume_eq(world, out, prop="C12"):
    """RESUME-EQ: the state restored by each resumed incarnation equals, field
    by field, the state digested when the checkpoint it came from was written."""
    recs = out["records"]
    incs = out["incarnations"]
    viol = []
    begins = {(r["i"], r["ordinal"]): r for r in _by(recs, "ckpt_begin")}
    wsaved = _by(recs, "weights_saved")
    lin = lineage(recs, world, len(incs))
    info = {"resumes_checked": 0, "fresh_after_kill": 0}
    for i, src in lin.items():
        con = _by(recs, "constructed", i)
        if not con:
            continue  # judged by the completion oracle
        con = con[0]
        if src is None:
            info["fresh_after_kill"] += 1
            if con["resumed"]:
                viol.append({"oracle": f"{prop}-RESUME-EQ", "key": f"{prop}-RESUME-EQ|resumed-from-nothing",
                             "detail": {"inc": i, "what": "resumed although no checkpoint had completed"},
                             "world": world})
            continue
        if not con["resumed"]:
            viol.append({"oracle": f"{prop}-RESUME-EQ", "key": f"{prop}-RESUME-EQ|fresh",
                         "detail": {"inc": i, "what": "started afresh although a checkpoint had completed",
                                    "source": list(src)}, "world": world})
            continue
        rest = _by(recs, "restored", i)
        if not rest or src not in begins:
            continue
        le = _by(recs, "loop_enter", src[0])
        if not le or begins[src]["n"] < le[0]["n"]:
            # a (signal-triggered) checkpoint written while the sampler was still being initialised holds partly
            # initialised objects that the resume legitimately completes: outside C12's quantifier
            info["pre_loop_checkpoints_skipped"] = info.get("pre_loop_checkpoints_skipped", 0) + 1
            continue
        want = begins[src]["digest"]
        got = rest[0]["digest"]
        info["resumes_checked"] += 1
        # the flow pool's 'populated' flag is reset by construction and restored by check_resume at the start of
        # the loop: judged separately from the note taken there
        diff = sorted(k for k in want if k not in ("flow_weights", "flow_pool_populated")
                      and want.get(k) != got.get(k))
        pool = _by(recs, "restored_pool", i)
        if pool and "flow_pool_populated" in want:
            from .digest import h as _h

            if _h(bool(pool[0]["populated"] and pool[0]["n_indices"])) != want["flow_pool_populated"]:
                diff.append("flow_pool_populated")
        if diff:
            viol.append({"oracle": f"{prop}-RESUME-EQ",
                         "key": f"{prop}-RESUME-EQ|{world['scenario']['sampler']}|{','.join(diff[:5])}",
                         "detail": {"inc": i, "source": list(src), "fields": diff,
                                    "restored_iteration": rest[0]["iteration"],
                                    "checkpoint_iteration": begins[src]["iteration"],
                                    "checkpoint_phase": begins[src].get("phase")},
                         "world": world})
        gw = got.get("flow_weights")
        ww = want.get("flow_weights")
        if gw != ww and world["scenario"]["sampler"] == "ns":
            allowed = {w.get("mhash") for w in wsaved if w["i"] < i}
            if gw not in allowed:
                loads = _by(recs, "weights_load", i)
                if loads:
                    viol.append({"oracle": f"{prop}-RESUME-WEIGHTS", "key": f"{prop}-RESUME-WEIGHTS",
                                 "detail": {"inc": i, "what": "restored flow weights equal no completely written weights"},
                                 "world": world})
        elif gw != ww:
            viol.append({"oracle": f"{prop}-RESUME-WEIGHTS", "key": f"{prop}-RESUME-WEIGHTS|ins",
                         "detail": {"inc": i, "what": "restored level weights differ from the checkpointed ones"},
                         "world": world})
    return viol, info


def judge_accounting(world, out, prop="C12"):
    """ACCT-EVALS / ACCT-TIME over the durable lineage."""
    recs = out["records"]
    incs = out["incarnations"]
    viol = []
    begins = {(r["i"], r["ordinal"]): r for r in _by(recs, "ckpt_begin")}
    lin = lineage(recs, world, len(incs))
    clock = world["scenario"].get("clock", {})
    train_cost = clock.get("train", 0.5)
    sampler = world["scenario"]["sampler"]
    # per incarnation: base values (from the checkpoint it restored)
    base = {}
    span_lo = {}  # accumulated lower bound of sampling time at start of inc i
    span_hi = {}
    info = {"ckpts_checked": 0, "results_checked": 0}
    for i, inc in enumerate(incs):
        start = _by(recs, "start", i)
        loop = _by(recs, "loop_enter", i)
        b = start[0]["t"] if start else inc["t_start"]
        ell = loop[0]["t"] if loop else None
        src = lin.get(i) if i >= 1 else None
        if i == 0 or src is None:
            base[i] = {"evals": 0, "sampling": 0.0, "training": 0.0, "like": 0.0}
            span_lo[i], span_hi[i] = 0.0, 0.0
        else:
            s = begins.get(src)
            if s is None:
                continue
            base[i] = {"evals": s["evals"], "sampling": s["sampling_time"],
                       "training": s.get("training_time") or 0.0, "like": s["likelihood_time"]}
            j = src[0]
            if j not in span_lo:
                continue
            jstart = _by(recs, "start", j)
            jloop = _by(recs, "loop_enter", j)
            bj = jstart[0]["t"] if jstart else incs[j]["t_start"]
            lj = jloop[0]["t"] if jloop else s["t"]
            io_j = sum(1 for f in recs if f["i"] == j and f["k"] == "fs" and f["n"] < s["n"]) * clock.get("io", 0.01)
            span_lo[i] = span_lo[j] + max(0.0, s["t"] - lj - io_j)
            span_hi[i] = span_hi[j] + (s["t"] - bj)
        if i not in base:
            continue
        n_tr = 0
        events = [r for r in recs if r["i"] == i and r["k"] in ("trained", "ckpt_begin", "result")]
        for r in events:
            if r["k"] == "trained":
                n_tr += 1
                continue
            if r["k"] == "ckpt_begin":
                info["ckpts_checked"] += 1
                api = r["api_points"]
            else:
                info["results_checked"] += 1
                ex = _by(recs, "exit", i)
                api = ex[0]["api_points"] if ex else None
            where = {"inc": i, "at": r["k"], "ordinal": r.get("ordinal"), "iteration": r.get("iteration"),
                     "resumed_from": list(src) if src else None}
            if api is not None and r["k"] == "ckpt_begin" and r["evals"] != base[i]["evals"] + api:
                viol.append({"oracle": f"{prop}-ACCT-EVALS", "key": f"{prop}-ACCT-EVALS|{sampler}",
                             "detail": dict(where, reported=r["evals"], resumed_value=base[i]["evals"],
                                            counted_this_incarnation=api), "world": world})
            if ell is None:
                continue
            # time spent writing files (checkpoints, weights) is legitimately not sampling time
            io_cost = clock.get("io", 0.01)
            n_fs = sum(1 for f in recs if f["i"] == i and f["k"] == "fs" and f["n"] < r["n"])
            io_t = n_fs * io_cost
            lo = (span_lo[i] + (r["t"] - ell) - io_t - EPS) if r["k"] == "ckpt_begin" else span_lo[i] - io_t - EPS
            hi = span_hi[i] + (r["t"] - b) + EPS
            st = r["sampling_time"]
            if not (lo <= st <= hi):
                viol.append({"oracle": f"{prop}-ACCT-TIME", "key": f"{prop}-ACCT-TIME|{sampler}|sampling_time",
                             "detail": dict(where, sampling_time=st, lower=lo, upper=hi,
                                            what=("exceeds the time the process was alive (downtime or a span "
                                                  "counted twice)" if st > hi else "time lost or reset")),
                             "world": world})
            tt = r.get("training_time")
            if tt is not None:
                tlo = base[i]["training"] + n_tr * train_cost - EPS
                thi = base[i]["training"] + (r["t"] - b) + EPS
                if not (tlo <= tt <= thi):
                    viol.append({"oracle": f"{prop}-ACCT-TIME", "key": f"{prop}-ACCT-TIME|{sampler}|training_time",
                                 "detail": dict(where, training_time=tt, lower=tlo, upper=thi), "world": world})
            lt = r.get("likelihood_time")
            if lt is not None:
                llo = base[i]["like"] - EPS
                lhi = base[i]["like"] + (r["t"] - b) + EPS
                if not (llo <= lt <= lhi):
                    viol.append({"oracle": f"{prop}-ACCT-TIME", "key": f"{prop}-ACCT-TIME|{sampler}|likelihood_time",
                                 "detail": dict(where, likelihood_time=lt, lower=llo, upper=lhi), "world": world})
    return viol, info


def judge_completion(world, out, prop):
    """A killed/resumed run must complete (exit 0). Only failures of a
    *resumed* incarnation are attributed to resuming, and only if the same
    scenario completes when it is not interrupted (reference run)."""
    incs = out["incarnations"]
    recs = out["records"]
    viol = []
    last = incs[-1]
    if last["exit"] == 70 and last["inc"] >= 1:
        from . import world as W

        ref_world = dict(world, plan=[f for f in world.get("plan", []) if f["kind"] == "stall"], monitors=[])
        ref = W.run_world(ref_world)
        if ref["incarnations"][-1]["exit"] != 0:
            return viol
        e = _by(recs, "exception")[-1]
        viol.append({"oracle": f"{prop}-COMPLETE",
                     "key": f"{prop}-COMPLETE|{e.get('type')}@{e.get('site')}",
                     "detail": {"what": "run raised", "inc": last["inc"], "exception": e.get("type"),
                                "msg": e.get("msg", "")[:300], "phase": e.get("phase"),
                                "tb": e.get("tb", "")[-900:]}, "world": world})
    return viol


def judge_idempotent(world, out, prop="C15"):
    """Finished runs are idempotent: every later incarnation that resumes the
    final checkpoint reports the same digest of samples / evidence / weights /
    evaluation count."""
    recs = out["records"]
    viol = []
    digs = [(r["i"], r["digest"], r.get("n"), r.get("evals")) for r in recs if r["k"] == "run_digest"]
    fin = {r["i"]: r for r in recs if r["k"] == "constructed"}
    finished = {r["i"]: bool(r.get("finalised")) for r in recs if r["k"] == "result"}
    base = None
    n = 0
    for (i, d, nn, ev) in digs:
        c = fin.get(i)
        if base is None:
            # the reference is the first incarnation that returned a *finished* (converged) run;
            # a run cut by the iteration cap legitimately continues when resumed
            if finished.get(i):
                base = (i, d, nn, ev)
            continue
        if c is not None and c.get("resumed") and c.get("finalised"):
            n += 1
            if d != base[1]:
                viol.append({"oracle": f"{prop}-resume-changed", "key": f"{prop}-resume-changed|{world['scenario']['sampler']}",
                             "detail": {"first": {"inc": base[0], "n": base[2], "evals": base[3]},
                                        "later": {"inc": i, "n": nn, "evals": ev}}, "world": world})
    return viol, {"resume_after_finish_compared": n}
