"""Worker farm: N forked workers of the pre-imported template process.

Workers never construct a sampler themselves; each job forks its own
incarnation children, so every incarnation starts from pristine process-global
state. A broken worker or a job exception is a harness error.
"""
import concurrent.futures as cf
import faulthandler
import multiprocessing
import os
import sys
import traceback


def default_jobs():
    v = os.environ.get("VERIF_JOBS")
    if v:
        return max(1, int(v))
    return max(1, (os.cpu_count() or 2))


def _call(payload):
    func, arg = payload
    try:
        return ("ok", func(arg))
    except BaseException:
        return ("err", traceback.format_exc())


def _init():
    faulthandler.enable()


def run_jobs(func, args, jobs=None, progress=None):
    """Yield (index, result) as jobs complete. Raises RuntimeError on harness
    failure inside a job."""
    jobs = jobs or default_jobs()
    args = list(args)
    if not args:
        return
    if jobs == 1:
        for i, a in enumerate(args):
            kind, res = _call((func, a))
            if kind == "err":
                raise RuntimeError("job failed:\n" + res)
            yield i, res
        return
    ctx = multiprocessing.get_context("fork")
    sys.stdout.flush()
    sys.stderr.flush()
    with cf.ProcessPoolExecutor(max_workers=min(jobs, len(args)), mp_context=ctx, initializer=_init) as ex:
        futs = {ex.submit(_call, (func, a)): i for i, a in enumerate(args)}
        done = 0
        for fut in cf.as_completed(futs):
            kind, res = fut.result()
            if kind == "err":
                for f in futs:
                    f.cancel()
                raise RuntimeError("job failed:\n" + res)
            done += 1
            if progress:
                progress(done, len(args))
            yield futs[fut], res
