"""Seed derivation: one integer decides everything.

Sub-streams are derived by hashing ``seed/purpose`` so that adding a consumer
never shifts another one.
"""
import hashlib
import random


def derive(seed, *purpose):
    h = hashlib.sha256(("/".join([str(seed)] + [str(p) for p in purpose])).encode()).digest()
    return int.from_bytes(h[:8], "big")


def stream(seed, *purpose):
    return random.Random(derive(seed, *purpose))


def seed32(seed, *purpose):
    return derive(seed, *purpose) % (2**32 - 1)
