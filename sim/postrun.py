"""End-of-run oracles executed inside the finishing incarnation."""
import json
import os

import numpy as np

from .modelzoo import SEAM


def run_digest(fs, sampler):
    """Byte digest of what C14 names: nested samples, evidence, weights,
    insertion indices, evaluation count."""
    import hashlib

    ns = fs.ns
    m = hashlib.sha256()
    samples = np.asarray(fs.nested_samples)
    m.update(samples.tobytes())
    m.update(np.float64(fs.logZ).tobytes())
    m.update(np.float64(fs.logZ_error).tobytes())
    m.update(np.ascontiguousarray(np.asarray(ns.state.log_posterior_weights, dtype="f8")).tobytes())
    if sampler == "ns":
        m.update(np.asarray(ns.insertion_indices, dtype="i8").tobytes())
    m.update(str(int(ns.model.likelihood_evaluations)).encode())
    return m.hexdigest()


def after_run(ctx, fs, world):
    scn = world["scenario"]
    sampler = scn["sampler"]
    monitors = world.get("monitors", ["ns", "res"])
    with ctx.guard():
        if "res" in monitors:
            if sampler == "ns":
                from .monitors_ns import result_oracle_ns

                cap = scn.get("kwargs", {}).get("max_iteration")
                result_oracle_ns(ctx, fs, cap)
            else:
                from .monitors_ins import result_oracle_ins

                result_oracle_ins(ctx, fs, scn)
        ctx.nb.note("run_digest", digest=run_digest(fs, sampler),
                    evals=int(fs.ns.model.likelihood_evaluations),
                    n=int(len(fs.nested_samples)), logZ=float(fs.logZ))
        if "stop" in monitors:
            if sampler == "ns":
                stop_oracle_ns(ctx, fs)
            else:
                from .monitors_ins import stop_oracle_ins

                stop_oracle_ins(ctx, fs, scn)
        if "files" in monitors:
            from .files_oracle import check_files

            check_files(ctx, fs, scn)
    for step in world.get("after", []):
        reentry(ctx, fs, world, step)


def stop_oracle_ns(ctx, fs):
    ns = fs.ns
    mon = ctx.mons.get("ns")
    if mon is None:
        return
    conds = mon.conditions
    tol = float(ns.tolerance)
    cap = ns.max_iteration
    # within this incarnation: every iteration before the last had cond > tol
    for (it, c, _, _) in conds[:-1]:
        if not (c > tol):
            ctx.violation("C15-stop-late", {"iteration": it, "condition": c, "tolerance": tol})
    if conds:
        it, c, _, _ = conds[-1]
        if not (c <= tol or it >= cap):
            ctx.violation("C15-stop-early", {"iteration": it, "condition": c, "tolerance": tol,
                                             "cap": None if np.isinf(cap) else int(cap)})
        if c <= tol and not ns.finalised:
            ctx.violation("C15-not-finalised", {"iteration": it})
        if c > tol and it >= cap and ns.finalised:
            ctx.violation("C15-finalised-at-cap", {"iteration": it})
    # history holds the compared values at the iterations it samples
    h = ns.history
    by_it = {it: c for (it, c, _, _) in conds}
    for it, c in zip(h["iterations"], h["dlogZ"]):
        if it in by_it and by_it[it] != c:
            ctx.violation("C15-history", {"iteration": int(it), "history": float(c), "compared": by_it[it]})
    ctx.nb.note("stop_checked", n=len(conds))


def _snapshot_results(fs):
    ns = fs.ns
    return {
        "logZ": float(fs.logZ), "err": float(fs.logZ_error),
        "samples": np.asarray(fs.nested_samples).tobytes(),
        "weights": np.asarray(ns.state.log_posterior_weights).tobytes(),
        "n": len(fs.nested_samples),
        "evals": int(ns.model.likelihood_evaluations),
    }


def reentry(ctx, fs, world, step):
    """C15: running again must return the same results with zero further
    likelihood evaluations (counted at nessai's API and at the raw model)."""
    if not fs.ns.finalised:
        # a run cut by the iteration cap is not "finished": rerunning it is probed, not judged
        ctx.probe("rerun_of_capped_run_not_judged")
        return
    before = _snapshot_results(fs)
    api0, seam0 = ctx.api_points, SEAM.points
    if step == "rerun":
        ctx.phase = "rerun"
        ctx.tracer.enabled = True
        fs.run(**dict(world["scenario"].get("run_kwargs", {}), plot=False))
        ctx.tracer.enabled = False
        ctx.phase = "post"
    else:
        raise ValueError(step)
    after = _snapshot_results(fs)
    with ctx.guard():
        for k in ("logZ", "err", "samples", "weights", "n"):
            same = before[k] == after[k]
            if not same and k in ("logZ", "err"):
                same = bool(np.isnan(before[k]) and np.isnan(after[k]))
            if not same:
                ctx.violation("C15-rerun-changed", {"field": k, "step": step,
                                                    "before": before[k] if k in ("logZ", "err", "n") else "...",
                                                    "after": after[k] if k in ("logZ", "err", "n") else "..."})
        if ctx.api_points != api0 or SEAM.points != seam0 or after["evals"] != before["evals"]:
            ctx.violation("C15-rerun-evaluations", {"step": step, "api": ctx.api_points - api0,
                                                    "raw": SEAM.points - seam0,
                                                    "counter": after["evals"] - before["evals"]})
        ctx.nb.note("reentry_ok", step=step)
        ctx.probe("rerun_after_finish")
