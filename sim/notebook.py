"""Lab notebook: an O_APPEND, unbuffered JSONL file outside the simulated disk.

Everything a monitor observes before a kill survives here for the history
checks while remaining invisible to nessai. Records carry the incarnation
index, a per-incarnation sequence number and the virtual time; no wall-clock
value ever enters it.
"""
import json
import os

import numpy as np


class _Enc(json.JSONEncoder):
    def default(self, o):
        if isinstance(o, np.integer):
            return int(o)
        if isinstance(o, np.floating):
            return float(o)
        if isinstance(o, np.bool_):
            return bool(o)
        if isinstance(o, np.ndarray):
            return o.tolist()
        if isinstance(o, (set, frozenset)):
            return sorted(o)
        return repr(o)


class Notebook:
    def __init__(self, path, incarnation, clock=None):
        self.path = path
        self.fd = os.open(path, os.O_WRONLY | os.O_APPEND | os.O_CREAT, 0o644)
        self.inc = incarnation
        self.seq = 0
        self.clock = clock

    def note(self, _kind, **payload):
        rec = {"i": self.inc, "n": self.seq, "t": (self.clock.t if self.clock else 0.0), "k": _kind}
        rec.update(payload)
        self.seq += 1
        os.write(self.fd, (json.dumps(rec, cls=_Enc, sort_keys=True) + "\n").encode())

    def close(self):
        try:
            os.close(self.fd)
        except OSError:
            pass


def read(path):
    out = []
    if not os.path.exists(path):
        return out
    with open(path, "rb") as f:
        for line in f:
            line = line.strip()
            if not line:
                continue
            try:
                out.append(json.loads(line))
            except ValueError:
                # torn last line of a killed incarnation: ignore
                pass
    return out
