"""Monitors for the standard nested sampler (invariants NS-*, C09 pool clauses,
C15 stopping rule, RES-NS). Installed in the child by wrapping public methods;
they copy before comparing, never touch nessai's counters and never draw from
the global generators (checked by RNG-state comparison in ``guard``)."""
import functools

import numpy as np

from . import oracles


def _rec_bytes(rec):
    return np.ascontiguousarray(np.array(rec)).tobytes()


def _wrap(cls, name, make):
    orig = cls.__dict__.get(name)
    if orig is None:
        # inherited: wrap on the class that defines it
        for base in cls.__mro__[1:]:
            if name in base.__dict__:
                return _wrap(base, name, make)
        raise AttributeError(name)
    if getattr(orig, "_sim_wrapped", False):
        return
    new = make(orig)
    functools.update_wrapper(new, orig)
    new._sim_wrapped = True
    setattr(cls, name, new)


class NSMonitor:
    def __init__(self, ctx):
        self.ctx = ctx
        self.iter_checked = 0
        self.replace_checked = 0
        self.populate_checked = 0
        self.draws_checked = 0
        self.conditions = []  # (iteration, condition, recomputed, tolerance)
        self.dead_seen = set()
        self.resumed_checked = False

    # -- helpers ---------------------------------------------------------
    def _model(self):
        return self.ctx.model

    def check_live(self, ns, where):
        ctx = self.ctx
        lp = ns.live_points
        if lp is None:
            ctx.violation("NS-LIVE", {"where": where, "what": "live_points is None"})
            return
        if lp.size != ns.nlive:
            ctx.violation("NS-LIVE", {"where": where, "what": "size", "size": int(lp.size),
                                      "nlive": int(ns.nlive), "iteration": int(ns.iteration)})
        ll = lp["logL"]
        if np.any(np.diff(ll) < 0) or np.any(np.isnan(ll)):
            ctx.violation("NS-LIVE", {"where": where, "what": "not ascending",
                                      "iteration": int(ns.iteration)})
        if not np.all(np.isfinite(lp["logP"])):
            ctx.violation("NS-LIVE", {"where": where, "what": "non-finite logP",
                                      "iteration": int(ns.iteration)})
        if not np.all(self._model().in_bounds(lp)):
            ctx.violation("NS-LIVE", {"where": where, "what": "outside bounds",
                                      "iteration": int(ns.iteration)})
        recs = {_rec_bytes(r[self._model().names]) for r in lp}
        if len(recs) != lp.size:
            ctx.violation("NS-LIVE", {"where": where, "what": "duplicated live point",
                                      "iteration": int(ns.iteration)})

    @staticmethod
    def awaiting(ns):
        """True if the sampler is in its explicit 'worst point removed, not yet
        replaced' phase (a consistent durable state of repaired trees)."""
        return getattr(ns, "_awaiting_replacement", False) is True

    def check_counts(self, ns, where):
        n_ns = len(ns.nested_samples)
        pending = 1 if self.awaiting(ns) else 0
        counts = {
            "nested_samples": n_ns,
            "iteration": int(ns.iteration),
            "insertion_indices": len(ns.insertion_indices) + pending,
            "state_entries": len(ns.state.logLs) - 1,
        }
        if len(set(counts.values())) != 1:
            self.ctx.violation("NS-DEAD-counts", {"where": where, "awaiting_replacement": bool(pending), **counts})
        if pending and n_ns and ns.live_points is not None:
            if _rec_bytes(ns.nested_samples[-1]) != _rec_bytes(ns.live_points[0]):
                self.ctx.violation("NS-DEAD-counts", {"where": where, "what": "awaiting replacement but the last "
                                                      "discarded point is not the current minimum"})

    def check_values(self, rec, where, it):
        m = self._model()
        r = np.array([rec]) if np.ndim(rec) == 0 else rec
        lp = m.log_prior(r)
        ll = m.ref_log_likelihood(r)
        if not np.array_equal(np.asarray(lp, dtype=r["logP"].dtype), r["logP"]):
            self.ctx.violation("VAL-logP", {"where": where, "iteration": it,
                                            "stored": r["logP"][:3].tolist(),
                                            "model": np.asarray(lp)[:3].tolist()})
        if not np.array_equal(np.asarray(ll, dtype=r["logL"].dtype).reshape(r["logL"].shape), r["logL"]):
            self.ctx.violation("VAL-logL", {"where": where, "iteration": it,
                                            "stored": r["logL"][:3].tolist(),
                                            "model": np.asarray(ll).reshape(-1)[:3].tolist()})

    # -- installation ----------------------------------------------------
    def install(self):
        from nessai.samplers.nestedsampler import NestedSampler
        from nessai.proposal.flowproposal import FlowProposal
        from nessai.proposal.rejection import RejectionProposal
        from nessai.proposal.analytic import AnalyticProposal

        mon = self
        ctx = self.ctx

        def mk_populate_live(orig):
            def populate_live_points(ns, *a, **k):
                out = orig(ns, *a, **k)
                with ctx.guard():
                    mon.check_live(ns, "populate_live_points")
                    mon.check_values(ns.live_points, "populate_live_points", 0)
                    if np.any(ns.live_points["it"] != 0):
                        ctx.violation("NS-LIVE", {"where": "populate_live_points", "what": "it != 0"})
                    ctx.nb.note("live_populated", nlive=int(ns.nlive))
                return out
            return populate_live_points

        def mk_consume(orig):
            def consume_sample(ns):
                with ctx.guard():
                    if not mon.resumed_checked:
                        mon.resumed_checked = True
                        if ctx.resumed:
                            mon.check_counts(ns, "after-resume")
                            mon.check_live(ns, "after-resume")
                            mon.dead_seen = {_rec_bytes(r) for r in ns.nested_samples}
                            if len(mon.dead_seen) != len(ns.nested_samples):
                                ctx.violation("NS-DEAD-duplicate", {"where": "after-resume"})
                    old = ns.live_points.copy()
                    pending = mon.awaiting(ns)
                    n_ns = len(ns.nested_samples) - (1 if pending else 0)
                    n_idx = len(ns.insertion_indices)
                    n_ll = len(ns.state.logLs) - (1 if pending else 0)
                    it0 = int(ns.iteration) - (1 if pending else 0)
                    logLmax0 = float(ns.logLmax)
                    if pending:
                        ctx.probe("resumed_awaiting_replacement")
                ctx.phase = "consume"
                out = orig(ns)
                ctx.phase = "loop"
                with ctx.guard():
                    mon.after_consume(ns, old, n_ns, n_idx, n_ll, it0, logLmax0, pending)
                return out
            return consume_sample

        def mk_finalise(orig):
            def finalise(ns):
                with ctx.guard():
                    old = ns.live_points.copy() if ns.live_points is not None else None
                    n_ns = len(ns.nested_samples)
                    it0 = int(ns.iteration)
                ctx.phase = "finalise"
                out = orig(ns)
                ctx.phase = "post"
                with ctx.guard():
                    mon.after_finalise(ns, old, n_ns, it0)
                return out
            return finalise

        def mk_check_resume(orig):
            def check_resume(ns):
                was = bool(ns.resumed)
                out = orig(ns)
                if was:
                    with ctx.guard():
                        fp = ns._flow_proposal
                        ctx.nb.note("restored_pool", populated=bool(fp.populated),
                                    n_indices=len(getattr(fp, "indices", []) or []),
                                    iteration=int(ns.iteration))
                return out
            return check_resume

        _wrap(NestedSampler, "populate_live_points", mk_populate_live)
        _wrap(NestedSampler, "consume_sample", mk_consume)
        _wrap(NestedSampler, "finalise", mk_finalise)
        _wrap(NestedSampler, "check_resume", mk_check_resume)

        def mk_populate(kind):
            def make(orig):
                def populate(p, *a, **k):
                    prev = ctx.phase
                    ctx.phase = prev + "/populate"
                    ctx.clock.advance(ctx.clock.populate)
                    out = orig(p, *a, **k)
                    ctx.phase = prev
                    with ctx.guard():
                        mon.after_populate(p, kind, a, k)
                    return out
                return populate
            return make

        _wrap(FlowProposal, "populate", mk_populate("flow"))
        _wrap(RejectionProposal, "populate", mk_populate("rejection"))
        _wrap(AnalyticProposal, "populate", mk_populate("analytic"))

        def mk_draw(orig):
            def draw(p, *a, **k):
                with ctx.guard():
                    before = list(p.indices) if getattr(p, "populated", False) else None
                    samples_before = p.samples if before is not None else None
                out = orig(p, *a, **k)
                with ctx.guard():
                    mon.after_draw(p, before, samples_before, out)
                return out
            return draw

        _wrap(FlowProposal, "draw", mk_draw)
        _wrap(AnalyticProposal, "draw", mk_draw)
        # RejectionProposal inherits AnalyticProposal.draw

        def mk_train(orig):
            def train(p, *a, **k):
                prev = ctx.phase
                ctx.phase = prev + "/train"
                ctx.clock.advance(ctx.clock.train)
                out = orig(p, *a, **k)
                ctx.phase = prev
                ctx.nb.note("trained", count=int(p.training_count))
                return out
            return train

        _wrap(FlowProposal, "train", mk_train)

        def mk_backward(orig):
            def backward_pass(p, z, *a, **k):
                with ctx.guard():
                    mon.check_latent(p, z)
                return orig(p, z, *a, **k)
            return backward_pass

        _wrap(FlowProposal, "backward_pass", mk_backward)

    # -- checks ----------------------------------------------------------
    def after_consume(self, ns, old, n_ns, n_idx, n_ll, it0, logLmax0, pending=False):
        ctx = self.ctx
        it = int(ns.iteration)
        self.iter_checked += 1
        if it != it0 + 1:
            ctx.violation("NS-DEAD-counts", {"what": "iteration did not advance by one", "before": it0, "after": it})
        if len(ns.nested_samples) != n_ns + 1:
            ctx.violation("NS-DEAD-once", {"iteration": it, "before": n_ns, "after": len(ns.nested_samples)})
        else:
            dead = ns.nested_samples[-1]
            if _rec_bytes(dead) != _rec_bytes(old[0]):
                ctx.violation("NS-REPLACE-removed-not-minimum", {"iteration": it})
            b = _rec_bytes(dead)
            if b in self.dead_seen and not pending:
                ctx.violation("NS-DEAD-duplicate", {"iteration": it, "logL": float(dead["logL"])})
            self.dead_seen.add(b)
            if n_ns and float(dead["logL"]) < float(ns.nested_samples[-2]["logL"]):
                ctx.violation("NS-DEAD-monotone", {"iteration": it})
        if len(ns.state.logLs) != n_ll + 1 or ns.state.logLs[-1] != old[0]["logL"]:
            ctx.violation("NS-DEAD-state", {"iteration": it, "entries_before": n_ll,
                                            "entries_after": len(ns.state.logLs)})
        if len(ns.insertion_indices) != n_idx + 1:
            ctx.violation("NS-INDEX-count", {"iteration": it, "before": n_idx, "after": len(ns.insertion_indices)})
        self.check_counts(ns, "after-consume")
        self.check_live(ns, "after-consume")
        lp = ns.live_points
        idx = int(ns.insertion_indices[-1])
        if not (0 <= idx < lp.size):
            ctx.violation("NS-INDEX", {"iteration": it, "index": idx})
            return
        new = lp[idx]
        rest = np.delete(lp, idx)
        if rest.tobytes() != old[1:].tobytes():
            # is the multiset right but the index wrong?
            where = [j for j in range(lp.size) if np.delete(lp, j).tobytes() == old[1:].tobytes()]
            if where:
                ctx.violation("NS-INDEX", {"iteration": it, "recorded": idx, "actual": where[:3]})
            else:
                ctx.violation("NS-REPLACE-others-touched", {"iteration": it})
        if not (float(new["logL"]) > float(old[0]["logL"])):
            ctx.violation("NS-REPLACE-not-strictly-greater",
                          {"iteration": it, "new": float(new["logL"]), "removed": float(old[0]["logL"])})
        if not np.isfinite(new["logP"]):
            ctx.violation("NS-REPLACE-logP", {"iteration": it})
        if int(new["it"]) != it:
            ctx.violation("NS-REPLACE-it", {"iteration": it, "it": int(new["it"])})
        self.check_values(np.array([new]), "replacement", it)
        self.replace_checked += 1
        # C15: stopping condition as documented, from the state after removal
        logZ = float(ns.state.logZ)
        cond = float(np.logaddexp(logZ, logLmax0 - it0 / float(ns.nlive)) - logZ)
        self.conditions.append((it, float(ns.condition), cond, float(ns.tolerance)))
        # (when the removal happened in an earlier incarnation logLmax at that time is unknown here)
        if not pending and not oracles.close(ns.condition, cond, rtol=1e-12, atol=1e-12):
            ctx.violation("C15-condition", {"iteration": it, "reported": float(ns.condition), "recomputed": cond})
        ctx.iteration = it
        ctx.nb.note("it", it=it, d=hash_float(ns.logLmin), c=float(ns.condition))

    def after_finalise(self, ns, old, n_ns, it0):
        ctx = self.ctx
        if old is None:
            ctx.violation("NS-FINAL", {"what": "no live points at finalise"})
            return
        added = ns.nested_samples[n_ns:]
        if len(added) != len(old) or np.array(added).tobytes() != old.tobytes():
            ctx.violation("NS-FINAL", {"what": "live set not consumed once in order",
                                       "added": len(added), "live": len(old)})
        if len(ns.nested_samples) != it0 + ns.nlive:
            ctx.violation("NS-FINAL", {"what": "count", "n": len(ns.nested_samples),
                                       "iteration": it0, "nlive": int(ns.nlive)})
        if ns.live_points is not None:
            ctx.violation("NS-FINAL", {"what": "live points not cleared"})
        if not ns.finalised:
            ctx.violation("NS-FINAL", {"what": "finalised flag"})
        ctx.nb.note("finalised", n=len(ns.nested_samples), iteration=it0)

    def after_populate(self, p, kind, a, k):
        ctx = self.ctx
        m = self._model()
        s = p.samples
        self.populate_checked += 1
        n = len(s)
        if n == 0:
            ctx.probe("empty_population")
            return
        if not np.all(m.in_bounds(s)):
            ctx.violation("C09-pool-bounds", {"kind": kind})
        if not np.all(np.isfinite(s["logP"])):
            ctx.violation("C09-pool-logP-finite", {"kind": kind})
        self.check_values(s, f"pool/{kind}", int(ctx.iteration))
        if kind == "flow":
            N = k.get("N", a[1] if len(a) > 1 else None)
            if N is not None and n != int(N):
                ctx.violation("C09-pool-size", {"kind": kind, "requested": int(N), "got": n})
        else:
            N = k.get("N", a[0] if a else None) or p.poolsize
            if n > int(N):
                ctx.violation("C09-pool-size", {"kind": kind, "requested": int(N), "got": n})
        if sorted(p.indices) != list(range(n)):
            ctx.violation("C09-pool-indices", {"kind": kind, "n": n, "indices": len(p.indices)})
        ctx.probe("populate_" + kind)
        ctx.nb.note("populated", pkind=kind, n=n)

    def after_draw(self, p, before, samples_before, out):
        ctx = self.ctx
        self.draws_checked += 1
        idx = list(p.indices)
        n = len(p.samples) if p.samples is not None else 0
        if len(set(idx)) != len(idx) or (idx and (min(idx) < 0 or max(idx) >= n)):
            ctx.violation("C09-pool-handout", {"what": "indices not distinct / out of range"})
        if before is not None and p.samples is samples_before:
            if idx != before[:-1]:
                ctx.violation("C09-pool-handout", {"what": "more or less than one index consumed",
                                                   "before": len(before), "after": len(idx)})
            elif _rec_bytes(out) != _rec_bytes(p.samples[before[-1]]):
                ctx.violation("C09-pool-handout", {"what": "returned sample is not the popped pool entry"})
            elif before[-1] in idx:
                ctx.violation("C09-pool-handout", {"what": "index handed out twice"})

    def check_latent(self, p, z):
        lp = getattr(p, "latent_prior", None)
        if lp not in ("truncated_gaussian", "uniform_nsphere", "uniform_nball"):
            return
        if not self.ctx.phase.endswith("/populate"):
            return
        r = getattr(p, "r", None)
        fuzz = getattr(p, "fuzz", 1.0) or 1.0
        if r is None or not np.isfinite(r):
            return
        z = np.asarray(z)
        if z.ndim != 2 or not z.size:
            return
        rad = np.sqrt(np.sum(z.astype("float64") ** 2, axis=1))
        lim = float(r) * float(fuzz)
        if np.any(rad > lim * (1 + 1e-6) + 1e-9):
            self.ctx.violation("C09-latent-radius", {"latent_prior": lp, "max": float(rad.max()), "limit": lim})
        self.ctx.probe("latent_radius_checked")


def hash_float(x):
    return float(x).hex()


def result_oracle_ns(ctx, fs, cut_by_cap):
    """RES-NS: results recomputed from the returned samples alone."""
    ns = fs.ns
    m = ctx.model
    viol = ctx.violation
    samples = np.asarray(fs.nested_samples)
    n = len(samples)
    nlive = int(ns.nlive)
    it = int(ns.iteration)
    finalised = bool(ns.finalised)
    expect_n = it + nlive if finalised else it
    if n != expect_n:
        viol("RES-NS-count", {"n": n, "iteration": it, "nlive": nlive, "finalised": finalised})
    if n == 0:
        return
    if np.any(np.diff(samples["logL"]) < 0):
        viol("RES-NS-order", {})
    lp = m.log_prior(samples)
    ll = m.ref_log_likelihood(samples)
    if not np.array_equal(np.asarray(lp, dtype=samples["logP"].dtype), samples["logP"]):
        viol("RES-NS-logP", {})
    if not np.array_equal(np.asarray(ll, dtype=samples["logL"].dtype), samples["logL"]):
        viol("RES-NS-logL", {})
    recs = {_rec_bytes(r) for r in samples}
    if len(recs) != n:
        viol("RES-NS-duplicate-sample", {"n": n, "distinct": len(recs)})
    ref = oracles.ref_ns_quadrature(samples["logL"], nlive, finalised, ns.state.expectation)
    logZ_ref = ref["logZ_trap"] if finalised else ref["logZ_rect"]
    if not oracles.close(fs.logZ, logZ_ref, rtol=1e-9, atol=1e-9):
        viol("RES-NS-logZ", {"reported": float(fs.logZ), "recomputed": logZ_ref})
    err_ref = float(np.sqrt(ref["info"] / nlive))
    if not oracles.close(fs.logZ_error, err_ref, rtol=1e-7, atol=1e-9):
        viol("RES-NS-logZ-error", {"reported": float(fs.logZ_error), "recomputed": err_ref})
    if not (np.isfinite(fs.logZ) and np.isfinite(fs.logZ_error) and fs.logZ_error > 0):
        # not part of C05 (finiteness of the uncertainty is C06's calibration clause): probe only
        ctx.probe("result_error_not_finite_positive")
    lpw = np.asarray(ns.state.log_posterior_weights)
    if not oracles.close(lpw, ref["log_post_w"], rtol=1e-9, atol=1e-9):
        viol("RES-NS-weights", {"n": len(lpw), "n_ref": len(ref["log_post_w"])})
    if finalised:
        from nessai.posterior import compute_weights

        lz2, lw2 = compute_weights(samples["logL"], nlive, expectation=ns.state.expectation)
        if not oracles.close(fs.logZ, lz2, rtol=1e-9, atol=1e-9) or not oracles.close(lpw, lw2, rtol=1e-9, atol=1e-9):
            viol("RES-NS-onepass", {"reported": float(fs.logZ), "onepass": float(lz2)})
    d = ns.get_result_dictionary()
    if not (oracles.close(d["log_evidence"], fs.logZ, rtol=0, atol=0)
            and oracles.close(d["log_evidence_error"], fs.logZ_error, rtol=0, atol=0)):
        viol("RES-NS-dict-evidence", {})
    if np.asarray(d["nested_samples"]).tobytes() != samples.tobytes():
        viol("RES-NS-dict-samples", {})
    if not np.array_equal(np.asarray(d["log_posterior_weights"]), lpw):
        viol("RES-NS-dict-weights", {})
    birth = np.asarray(d["logL_birth"])
    if len(birth) != n or not np.all(birth < samples["logL"]):
        viol("RES-NS-birth", {"n": len(birth)})
    if list(d["insertion_indices"]) != list(ns.insertion_indices):
        viol("RES-NS-dict-indices", {})
    if d["total_likelihood_evaluations"] != ns.model.likelihood_evaluations:
        viol("RES-NS-dict-evals", {})
    ctx.nb.note("result", sampler="ns", logZ=float(fs.logZ), err=float(fs.logZ_error), n=n,
                iteration=it, finalised=finalised,
                evals=int(ns.model.likelihood_evaluations),
                sampling_time=ns.sampling_time.total_seconds(),
                training_time=ns.training_time.total_seconds(),
                likelihood_time=ns.model.likelihood_evaluation_time.total_seconds())
