"""Deterministic simulator with fault injection for nessai (see /verif/DESIGN.md)."""
