"""Deterministic simulator with fault injection for nessai (see /verif/DESIGN.md)."""
import os as _os
import sys as _sys

# the repository under test must win over the editable install, whatever imports nessai first
_repo = _os.environ.get("VERIF_REPO", "/repo")
if _repo not in _sys.path[:1]:
    _sys.path.insert(0, _repo)
