"""SimPool: a cooperative stand-in for ``multiprocessing.Pool``.

``k`` simulated workers; per ``map`` the schedule PRNG picks the task→worker
assignment and the completion order; tasks really execute in that order (the
worker "process" state is the module global ``_model`` set by
``initialise_pool_variables``); results are re-assembled by task index as
``multiprocessing`` does; the virtual clock advances by the makespan.
"""
import hashlib
import random


class SimPool:
    def __init__(self, k, sched_seed=0, clock=None, notebook=None, mode="shuffle"):
        self._processes = int(k)
        self.rng = random.Random(sched_seed)
        self.clock = clock
        self.nb = notebook
        self.mode = mode
        self.closed = False
        self.terminated = False
        self.joined = False
        self.maps = 0
        self.tasks = 0
        self.schedules = set()
        self.nonidentity = 0
        self.uneven = 0
        self.log = []

    def map(self, func, iterable, chunksize=None):
        if self.closed or self.terminated:
            raise ValueError("Pool not running")
        tasks = list(iterable)
        n = len(tasks)
        self.maps += 1
        self.tasks += n
        order = list(range(n))
        if self.mode == "shuffle":
            self.rng.shuffle(order)
        elif self.mode == "reverse":
            order.reverse()
        assign = [self.rng.randrange(self._processes) for _ in range(n)]
        if order != list(range(n)):
            self.nonidentity += 1
        loads = [assign.count(w) for w in range(self._processes)]
        if n and max(loads) - min(loads) > 1:
            self.uneven += 1
        results = [None] * n
        t_before = self.clock.t if self.clock else 0.0
        spans = [0.0] * self._processes
        for idx in order:
            t0 = self.clock.t if self.clock else 0.0
            results[idx] = func(tasks[idx])
            if self.clock:
                spans[assign[idx]] += self.clock.t - t0
        if self.clock:
            # workers run in parallel: wall time is the makespan, not the sum
            self.clock.t = t_before + max(spans)
        sig = hashlib.sha1(repr((order, assign)).encode()).hexdigest()[:12]
        self.schedules.add(sig)
        if len(self.log) < 8:
            self.log.append({"n": n, "order": order[:16], "assign": assign[:16]})
        return results

    def imap(self, func, iterable, chunksize=None):
        return iter(self.map(func, iterable))

    def close(self):
        self.closed = True

    def terminate(self):
        self.terminated = True

    def join(self):
        if not (self.closed or self.terminated):
            raise ValueError("Pool is still running")
        self.joined = True

    def summary(self):
        return {
            "k": self._processes,
            "maps": self.maps,
            "tasks": self.tasks,
            "schedules": len(self.schedules),
            "nonidentity": self.nonidentity,
            "uneven": self.uneven,
            "closed": self.closed,
            "terminated": self.terminated,
            "joined": self.joined,
            "sample": self.log[:3],
        }
