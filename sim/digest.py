"""Canonical, hash-seed independent digests of sampler state.

``canon`` walks an object into a nested structure of plain values with every
dict / set sorted; ``h`` hashes it. ``ns_digest`` / ``ins_digest`` name the
fields property C12 speaks about (and no others) and return ``{field: hash}``
so that a mismatch is reported field by field.
"""
import collections
import datetime
import hashlib
import types

import numpy as np


def _arr(a):
    a = np.asarray(a)
    if a.dtype == object:
        return ["objarr", [canon(v) for v in a.tolist()]]
    return ["nd", str(a.dtype.descr if a.dtype.names else a.dtype.str), list(a.shape),
            hashlib.sha1(np.ascontiguousarray(a).tobytes()).hexdigest()]


def canon(o, depth=0, skip=()):
    if depth > 12:
        return "<deep>"
    if o is None or isinstance(o, (bool, str)):
        return o
    if isinstance(o, (int, np.integer)):
        return int(o)
    if isinstance(o, (float, np.floating)):
        f = float(o)
        return ["f", f.hex()] if f == f else ["f", "nan"]
    if isinstance(o, np.bool_):
        return bool(o)
    if isinstance(o, np.ndarray):
        return _arr(o)
    if isinstance(o, np.void):
        return _arr(np.array(o))
    if isinstance(o, datetime.timedelta):
        return ["td", o.total_seconds().hex()]
    if isinstance(o, datetime.datetime):
        return ["dt", o.isoformat()]
    if isinstance(o, bytes):
        return ["b", hashlib.sha1(o).hexdigest()]
    if isinstance(o, (list, tuple, collections.deque)):
        return [canon(v, depth + 1, skip) for v in o]
    if isinstance(o, (set, frozenset)):
        return ["set", sorted((canon(v, depth + 1, skip) for v in o), key=repr)]
    if isinstance(o, dict):
        return ["dict", sorted(([repr(k), canon(v, depth + 1, skip)] for k, v in o.items()
                                if k not in skip), key=lambda kv: kv[0])]
    try:
        import torch

        if isinstance(o, torch.Tensor):
            return ["tensor", _arr(o.detach().cpu().numpy())]
        if isinstance(o, torch.nn.Module):
            return ["module", type(o).__name__, module_hash(o)]
    except ImportError:  # pragma: no cover
        pass
    if isinstance(o, (types.FunctionType, types.BuiltinFunctionType, types.MethodType)):
        return ["fn", getattr(o, "__qualname__", repr(type(o)))]
    if isinstance(o, type):
        return ["cls", o.__qualname__]
    if hasattr(o, "__dict__"):
        return ["obj", type(o).__qualname__, canon(vars(o), depth + 1, skip)]
    return ["repr", type(o).__qualname__]


def h(o, skip=()):
    return hashlib.sha1(repr(canon(o, skip=skip)).encode()).hexdigest()[:16]


def module_hash(module):
    m = hashlib.sha1()
    for k, v in sorted(module.state_dict().items()):
        m.update(k.encode())
        m.update(np.ascontiguousarray(v.detach().cpu().numpy()).tobytes())
    return m.hexdigest()[:16]


def samples_bytes(x):
    if x is None:
        return None
    if isinstance(x, list):
        if not x:
            return "empty"
        x = np.array(x)
    return _arr(x)


# attributes of reparameterisation objects that are references, not state
_REPARAM_SKIP = {"model", "rescaling", "rescale", "prior", "_prior", "_rescale", "_inverse_rescale"}


def reparam_state(proposal):
    r = getattr(proposal, "_reparameterisation", None)
    if r is None:
        return None
    out = {}
    reps = getattr(r, "reparameterisations", None) or {}
    for name, rep in reps.items():
        d = {}
        for k, v in vars(rep).items():
            if k in _REPARAM_SKIP or callable(v):
                continue
            d[k] = v
        out[str(name)] = [type(rep).__name__, d]
    out["__combined__"] = {
        "parameters": list(getattr(r, "parameters", [])),
        "prime_parameters": list(getattr(r, "prime_parameters", [])),
    }
    return out


def _td(x):
    return x.total_seconds() if isinstance(x, datetime.timedelta) else x


def ns_digest(ns):
    """Digest of a standard NestedSampler: the fields C12 names."""
    st = ns.state
    fp = ns._flow_proposal
    up = ns._uninformed_proposal
    d = {
        "iteration": h(ns.iteration),
        "live_points": h(samples_bytes(ns.live_points)),
        "nested_samples": h(samples_bytes(ns.nested_samples)),
        "evidence_state": h({
            "logZ": st.logZ, "logw": st.logw, "logLs": list(st.logLs),
            "log_vols": list(st.log_vols), "info": list(st.info), "nlive": list(st.nlive),
        }),
        "insertion_indices": h([int(i) for i in ns.insertion_indices]),
        "history": h(ns.history),
        "thresholds": h({"logLmin": ns.logLmin, "logLmax": ns.logLmax, "condition": ns.condition,
                         "awaiting_replacement": getattr(ns, "_awaiting_replacement", False) is True}),
        "flow_pool": h({
            "samples": samples_bytes(getattr(fp, "samples", None)),
            "indices": list(getattr(fp, "indices", []) or []),
            "populating": bool(getattr(fp, "populating", False)),
            "r": getattr(fp, "r", None),
        }),
        "flow_pool_populated": h(bool(fp.populated and bool(getattr(fp, "indices", [])))),
        "uninformed_pool": h({
            "samples": samples_bytes(getattr(up, "samples", None)),
            "indices": list(getattr(up, "indices", []) or []),
            "populated": bool(getattr(up, "populated", False)),
        }),
        "training_counters": h({
            "training_count": getattr(fp, "training_count", None),
            "populated_count": getattr(fp, "populated_count", None),
            "completed_training": ns.completed_training,
            "block_iteration": ns.block_iteration,
            "block_acceptance": ns.block_acceptance,
            "mean_block_acceptance": ns.mean_block_acceptance,
            "accepted": ns.accepted, "rejected": ns.rejected,
            "acceptance_history": list(ns.acceptance_history),
            "uninformed_sampling": bool(ns.uninformed_sampling),
            "finalised": bool(ns.finalised),
        }),
        "reparameterisation": h(reparam_state(fp)),
        "likelihood_evaluations": h(int(ns.model.likelihood_evaluations)),
        "timings": h({
            "sampling_time": _td(ns.sampling_time),
            "training_time": _td(ns.training_time),
            "flow_population_time": _td(fp.population_time),
            "uninformed_population_time": _td(up.population_time),
            "likelihood_evaluation_time": _td(ns.model.likelihood_evaluation_time),
        }),
    }
    flow = getattr(fp, "flow", None)
    mod = getattr(flow, "model", None) if flow is not None else None
    d["flow_weights"] = module_hash(mod) if mod is not None else None
    return d


def ins_digest(ns, with_log_q=True):
    """Digest of an ImportanceNestedSampler: the fields C12 names."""
    d = {
        "iteration": h(ns.iteration),
        "evidence_state": h({
            "logZ": ns.state.logZ,
            "log_evidence_error": ns.state.log_evidence_error if ns.state._n else None,
        }) if hasattr(ns.state, "_n") else h(ns.state.logZ),
        "history": h(ns.history),
        "thresholds": h({"logL_threshold": getattr(ns, "logL_threshold", None),
                         "logL_pre": getattr(ns, "logL_pre", None)}),
        "likelihood_evaluations": h(int(ns.model.likelihood_evaluations)),
        "finalised": h(bool(ns.finalised)),
    }
    for name in ("training_samples", "iid_samples"):
        s = getattr(ns, name, None)
        if s is None:
            d[name] = None
            continue
        d[name] = h({
            "samples": samples_bytes(s.samples),
            "live": _arr(s.live_points_indices) if s.live_points_indices is not None else None,
            "nested": _arr(s.nested_samples_indices) if getattr(s, "nested_samples_indices", None) is not None else None,
        })
    p = ns.proposal
    d["proposal"] = h({
        "n_proposals": p.n_proposals,
        "n_draws": dict(p.n_draws) if hasattr(p, "n_draws") else None,
        "n_requested": dict(getattr(p, "n_requested", {}) or {}),
        "level_count": getattr(p, "level_count", None),
        "weights": {str(k): v for k, v in getattr(p, "_weights", {}).items()},
    })
    d["timings"] = h({
        "sampling_time": _td(ns.sampling_time),
        "training_time": _td(getattr(ns, "training_time", None)),
        "draw_samples_time": _td(getattr(ns, "draw_samples_time", None)),
        "add_and_update_samples_time": _td(getattr(ns, "add_and_update_samples_time", None)),
        "likelihood_evaluation_time": _td(ns.model.likelihood_evaluation_time),
    })
    try:
        flow = p.flow
        d["flow_weights"] = h([module_hash(m) for m in flow.models]) if flow is not None else None
    except Exception as e:  # pragma: no cover
        d["flow_weights"] = "err:" + type(e).__name__
    return d
