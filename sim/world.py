"""World runner: executes the incarnations of one simulated run.

``run_world(world)`` is a pure function of (world description, code under
test): it forks one child per incarnation from the (pristine) calling process,
lets the fault plan kill / signal it, and restarts from the durable state until
an incarnation finishes ``run()`` or the incarnation budget is exhausted.
"""
import hashlib
import json
import os
import shutil
import signal
import time

from . import env
from . import notebook as nbmod

WALL_LIMIT_S = float(os.environ.get("VERIF_WALL_LIMIT", "150"))


class HarnessError(Exception):
    pass


def _wait(pid, limit):
    """waitpid with a wall-clock limit (harness robustness only; a timeout is
    a harness error, never a verdict)."""
    t0 = time.monotonic()
    delay = 0.002
    while True:
        p, status = os.waitpid(pid, os.WNOHANG)
        if p == pid:
            return status
        if time.monotonic() - t0 > limit:
            try:
                os.kill(pid, signal.SIGKILL)
            except ProcessLookupError:
                pass
            os.waitpid(pid, 0)
            return None
        time.sleep(delay)
        delay = min(0.05, delay * 1.5)


def world_dir(world, tag=""):
    root = os.environ.get("NESSAI_SIM_ROOT") or os.path.join(env.scratch_root(), f"nessai-sim-{os.getpid()}")
    os.makedirs(root, exist_ok=True)
    name = hashlib.sha1((json.dumps(world, sort_keys=True, default=repr) + tag).encode()).hexdigest()[:16]
    return os.path.join(root, f"w{name}-{os.getpid()}")


def run_incarnation(world, inc, lab, disk, t0):
    pid = os.fork()
    if pid == 0:
        try:
            from . import incarnation

            incarnation.run(world, inc, lab, disk, t0)
        finally:
            os._exit(99)
    status = _wait(pid, WALL_LIMIT_S)
    if status is None:
        return {"exit": "wall_timeout"}
    if os.WIFSIGNALED(status):
        return {"exit": "signaled", "sig": os.WTERMSIG(status)}
    return {"exit": os.WEXITSTATUS(status)}


def run_world(world, keep=False, base_dir=None, start_from=None):
    """Execute a world; returns an outcome dict (JSON-serialisable).

    start_from: optional (disk_snapshot_dir, first_incarnation_index, t0) to
    begin from a copied durable state (used for restore checks).
    """
    wd = base_dir or world_dir(world)
    if os.path.exists(wd):
        shutil.rmtree(wd)
    lab = os.path.join(wd, "lab")
    disk = os.path.join(wd, "disk")
    os.makedirs(lab)
    inc = 0
    t0 = 0.0
    if start_from is not None:
        shutil.copytree(start_from[0], disk)
        inc = start_from[1]
        t0 = start_from[2]
    else:
        os.makedirs(disk)
    max_inc = int(world.get("max_incarnations", 8))
    downtimes = world.get("downtimes", [])
    incs = []
    extra_after = int(world.get("after_finish_incarnations", 0))
    first = inc
    t_wall = time.monotonic()
    try:
        while True:
            res = run_incarnation(world, inc, lab, disk, t0)
            recs_all = nbmod.read(os.path.join(lab, "notebook.jsonl"))
            mine = [r for r in recs_all if r["i"] == inc]
            res["inc"] = inc
            res["t_start"] = t0
            res["t_end"] = mine[-1]["t"] if mine else t0
            incs.append(res)
            code = res["exit"]
            if code == 0 and extra_after > 0:
                # resume-after-finish history (C15): start again from the final checkpoint
                extra_after -= 1
                inc += 1
                t0 = res["t_end"] + 1.0
                continue
            if code in (0, 70, 71, 72, 73, 74, 99, "wall_timeout", "signaled"):
                break
            # killed (137), signalled (77 / 128+n): restart from the durable state
            inc += 1
            if inc - first >= max_inc + int(world.get("after_finish_incarnations", 0)):
                break
            k = inc - first - 1
            dt = downtimes[k] if k < len(downtimes) else 1.0
            t0 = res["t_end"] + float(dt)
        records = nbmod.read(os.path.join(lab, "notebook.jsonl"))
        outcome = {
            "incarnations": incs,
            "records": records,
            "wall_s": time.monotonic() - t_wall,
            "dir": wd if keep else None,
        }
        return outcome
    finally:
        if not keep:
            shutil.rmtree(wd, ignore_errors=True)


def event_log_digest(records, portable=False):
    """Identity of a run: sha256 over the deterministic notebook records.

    portable=True additionally drops the byte counts of pickle writes, which depend on
    PYTHONHASHSEED (set-ordered __getstate__ dictionaries) while the state does not."""
    m = hashlib.sha256()
    for r in records:
        if portable and r["k"] == "fs" and "nbytes" in r and ".pkl" in (r.get("path") or ""):
            r = {k: v for k, v in r.items() if k not in ("nbytes", "bounds", "nwrites", "torn_at")}
        if r["k"] in ("exit",):
            r = {k: v for k, v in r.items() if k != "trace"}
        if "sha" in r and r["k"] in ("ckpt_done",):
            # pickled torch tensors embed their storage address: the checkpoint's
            # bytes (not its content) differ from process to process
            r = {k: v for k, v in r.items() if k != "sha"}
        if r["k"] == "start" and "resume_sha" in r:
            r = {k: v for k, v in r.items() if k != "resume_sha"}
        m.update(json.dumps(r, sort_keys=True).encode())
    return m.hexdigest()


def of_kind(records, kind, inc=None):
    return [r for r in records if r["k"] == kind and (inc is None or r["i"] == inc)]
