"""Scenario generators for the importance nested sampler."""
from . import rng as R
from .scenarios import tiny_flow, training_config


def simple_ins(seed, n, nlive=60, **over):
    kwargs = dict(nlive=nlive, seed=R.seed32(seed, "run-seed", n), plot=False,
                  min_samples=20, min_remove=1, max_iteration=5, tolerance=0.0,
                  checkpoint_on_iteration=True, checkpoint_interval=1,
                  flow_config=dict(n_blocks=2, n_neurons=4, n_layers=1, batch_norm_between_layers=False),
                  training_config=dict(max_epochs=3, patience=3))
    kwargs.update(over)
    return {"sampler": "ins", "model": {"name": "gauss", "dims": 2}, "kwargs": kwargs, "run_kwargs": {},
            "clock": {"per_point": 1e-3, "train": 0.5, "io": 0.01, "populate": 0.05}}


def ins_scenario(seed, n):
    r = R.stream(seed, "ins-scenario", n)
    dims = r.choice([2, 2, 3])
    model = {"name": "gauss", "dims": dims}
    mk = r.random()
    if mk < 0.15:
        model = {"name": "gauss_nonuniform", "dims": dims}
    elif mk < 0.35:
        model = {"name": "gauss_constrained", "dims": dims}
    nlive = r.choice([40, 60, 80, 120, 150])
    kwargs = dict(nlive=nlive, seed=R.seed32(seed, "run-seed", n), plot=False)
    kwargs["min_samples"] = r.choice([5, 20, nlive // 2, nlive - 5, nlive])
    kwargs["min_remove"] = r.choice([1, 1, 5, nlive // 4])
    if r.random() < 0.3:
        kwargs["max_samples"] = kwargs["min_samples"] + nlive + r.choice([0, 10, nlive])
    kwargs["max_iteration"] = r.choice([3, 4, 6, 8])
    if r.random() < 0.3:
        kwargs["min_iteration"] = r.choice([1, 2, 3])
    # stopping criteria
    sc = r.random()
    if sc < 0.35:
        kwargs["stopping_criterion"] = "ratio"
        kwargs["tolerance"] = r.choice([0.0, -1.0, -3.0])
    elif sc < 0.5:
        kwargs["stopping_criterion"] = r.choice(["ess", "log_dZ", "log_evidence", "Z_err", "evidence_error",
                                                 "fractional_error", "ratio_ns", "ratio_all"])
        kwargs["tolerance"] = {"ess": -1.0, "log_dZ": 0.05, "log_evidence": 0.05, "Z_err": 1.05,
                               "evidence_error": 1.05, "fractional_error": 0.05, "ratio_ns": -2.0,
                               "ratio_all": -1.0}[kwargs["stopping_criterion"]]
    elif sc < 0.75:
        kwargs["stopping_criterion"] = ["ratio", "log_dZ"]
        kwargs["tolerance"] = [r.choice([0.0, -2.0]), r.choice([0.01, 0.1])]
        kwargs["check_criteria"] = r.choice(["any", "all"])
    else:
        kwargs["stopping_criterion"] = ["fractional_error", "ratio_ns", "ess"]
        kwargs["tolerance"] = [0.1, -1.0, -1.0]
        kwargs["check_criteria"] = r.choice(["any", "all"])
    # thresholds
    if r.random() < 0.5:
        kwargs["threshold_method"] = "quantile"
        kwargs["threshold_kwargs"] = {"q": r.choice([0.5, 0.8, 0.95])}
        if r.random() < 0.3:
            kwargs["threshold_kwargs"]["include_likelihood"] = True
    else:
        kwargs["threshold_method"] = "entropy"
        kwargs["threshold_kwargs"] = {"q": r.choice([0.3, 0.5, 0.8])}
        if r.random() < 0.3:
            kwargs["threshold_kwargs"]["include_likelihood"] = True
        if r.random() < 0.2:
            kwargs["threshold_kwargs"]["use_log_weights"] = False
    if r.random() < 0.1:
        kwargs.pop("threshold_kwargs")
        kwargs["n_update"] = r.choice([5, nlive // 4])
    if r.random() < 0.3:
        kwargs["strict_threshold"] = True
    if r.random() < 0.15:
        kwargs["replace_all"] = True
    if r.random() < 0.3:
        kwargs["draw_constant"] = False
    if r.random() < 0.35:
        kwargs["draw_iid_live"] = False
    if r.random() < 0.5:
        kwargs["save_log_q"] = True
    if r.random() < 0.5:
        kwargs["save_existing_checkpoint"] = True
    if r.random() < 0.3:
        kwargs["reparameterisation"] = None
    if r.random() < 0.2:
        kwargs["weighted_kl"] = r.choice([True, False])
    if r.random() < 0.2:
        kwargs["reset_flow"] = r.choice([False, 2, True])
    if r.random() < 0.15:
        kwargs["clip"] = True
    ck = r.random()
    if ck < 0.6:
        kwargs.update(checkpoint_on_iteration=True, checkpoint_interval=r.choice([1, 1, 2, 3]))
    else:
        kwargs.update(checkpoint_on_iteration=False, checkpoint_interval=r.choice([0.05, 0.5, 2.0]))
    kwargs["flow_config"] = tiny_flow(r, ("realnvp", "realnvp", "maf", "nsf"))
    kwargs["training_config"] = training_config(r)
    clock = {"per_point": r.choice([1e-3, 1e-2]), "train": r.choice([0.3, 1.0, 5.0]), "io": 0.01,
             "populate": r.choice([0.02, 0.2])}
    scn = {"sampler": "ins", "model": model, "kwargs": kwargs, "run_kwargs": {}, "clock": clock}
    if r.random() < 0.3:
        scn["pool"] = {"k": r.choice([1, 2, 3, 4]), "sched": r.randrange(10 ** 6)}
        if r.random() < 0.5:
            kwargs["likelihood_chunksize"] = r.choice([1, 7, 1000])
    return scn
