"""Check runner: tiers, parallel execution, known findings, replay files,
evidence, exit codes.

Exit 0 = property held on everything explored (KNOWN-FINDING lines allowed);
exit 1 = at least one unlisted violation (``VIOLATION property=<id>
replay=<path>`` per violation); exit 2 = harness error / nondeterminism /
timeout (never 0, never a VIOLATION line).
"""
import argparse
import hashlib
import json
import os
import sys
import time
import traceback

from . import env, farm

VERIF = os.path.dirname(os.path.dirname(os.path.abspath(__file__)))


class Harness(Exception):
    pass


def load_known():
    p = os.path.join(VERIF, "known_findings.json")
    if not os.path.exists(p):
        return []
    with open(p) as f:
        return json.load(f).get("findings", [])


def jsonable(o):
    return json.loads(json.dumps(o, default=repr))


class Runner:
    def __init__(self, prop, level, tier, seed, replay=None):
        self.prop = prop
        self.level = level
        self.tier = tier
        self.seed = seed
        self.replay = replay
        self.t0 = time.monotonic()
        self.known = [k for k in load_known() if k.get("property") == prop and k.get("status") == "known"]
        self.violations = []  # unlisted
        self.known_hits = {}
        self.evaluations = 0
        self.signatures = set()
        self.nontrivial_signatures = set()
        self.samples = []
        self.stats = {}
        self.faults = {}
        self.probes = {}
        self.sim_time = 0.0
        self.runs = 0
        self.incarnations = 0
        self.selftest = {"pairs": 0, "equal": 0}
        self.notes = []
        self.aborted = []
        self.jobs = farm.default_jobs()
        self.budget_s = float(os.environ.get("VERIF_BUDGET_S", "0")) or None

    # ------------------------------------------------------------------
    def map(self, func, jobs, label=""):
        jobs = list(jobs)
        out = [None] * len(jobs)
        n = len(jobs)
        last = [time.monotonic()]

        def progress(done, total):
            if time.monotonic() - last[0] > 20:
                last[0] = time.monotonic()
                print(f"[{self.prop}] {label} {done}/{total} ({time.monotonic() - self.t0:.0f}s)",
                      file=sys.stderr, flush=True)

        try:
            for i, res in farm.run_jobs(func, jobs, jobs=self.jobs, progress=progress):
                out[i] = res
        except RuntimeError as e:
            raise Harness(str(e))
        return out

    # ------------------------------------------------------------------
    def count(self, d, key, n=1):
        d[key] = d.get(key, 0) + n

    def absorb(self, res):
        """Fold the generic part of a job result into the evidence."""
        self.evaluations += res.get("evaluations", 1)
        self.runs += res.get("runs", 1)
        self.incarnations += res.get("incarnations", 1)
        self.sim_time += res.get("sim_time", 0.0)
        for k, v in res.get("faults", {}).items():
            self.count(self.faults, k, v)
        for k, v in res.get("probes", {}).items():
            self.count(self.probes, k, v)
        for s in res.get("signatures", []):
            self.signatures.add(s)
        for s in res.get("nontrivial", []):
            self.nontrivial_signatures.add(s)
        if res.get("sample") is not None and len(self.samples) < 6:
            self.samples.append(res["sample"])
        w = res.get("wall_s")
        if w is not None:
            self.stats["max_world_wall_s"] = max(self.stats.get("max_world_wall_s", 0.0), w)
            if w > 60 and len(self.notes) < 10:
                self.notes.append(f"slow world {w}s exits={res.get('exits')} sample={str(res.get('sample'))[:400]}")
        if res.get("harness_error"):
            raise Harness(json.dumps(res["harness_error"])[:4000])
        for a in res.get("aborted", []):
            if len(self.aborted) < 20:
                self.aborted.append(a)
        for v in res.get("violations", []):
            self.report(v)

    def report(self, v):
        """v: dict(oracle, key, detail, world[, what])."""
        key = v.get("key") or v.get("oracle")
        for k in self.known:
            if k["key"] == key:
                self.known_hits.setdefault(key, {"what": k.get("what", ""), "n": 0, "example": v.get("detail")})
                self.known_hits[key]["n"] += 1
                return
        for u in self.violations:
            if u.get("key") == key:
                u["count"] = u.get("count", 1) + 1
                return
        v = dict(v)
        v["key"] = key
        v["count"] = 1
        self.violations.append(v)

    # ------------------------------------------------------------------
    def write_replay(self, v):
        rdir = os.environ.get("VERIF_REPLAY_DIR") or os.path.join(VERIF, "replays")
        os.makedirs(rdir, exist_ok=True)
        body = {
            "format": "nessai-sim-replay/1",
            "property": self.prop,
            "verif_seed": self.seed,
            "tier": self.tier,
            "oracle": v.get("oracle"),
            "key": v.get("key"),
            "detail": v.get("detail"),
            "world": v.get("world"),
            "job": v.get("job"),
            "event_log_digest": v.get("digest"),
            "minimised": v.get("minimised", False),
        }
        body = jsonable(body)
        name = hashlib.sha1(json.dumps(body, sort_keys=True).encode()).hexdigest()[:12]
        path = os.path.join(rdir, f"{self.prop}-{name}.json")
        with open(path, "w") as f:
            json.dump(body, f, indent=1, sort_keys=True)
        return path

    def finish(self, rule, extra=None, exhaustive=None, assumptions=None, minimise=None):
        wall = time.monotonic() - self.t0
        nviol = len(self.violations)
        if minimise is not None:
            for v in self.violations[:5]:
                try:
                    mv = minimise(v)
                    if mv is not None:
                        v.update(mv)
                        v["minimised"] = True
                except Exception:
                    self.notes.append("minimiser failed: " + traceback.format_exc()[-500:])
        lines = []
        for key, hit in sorted(self.known_hits.items()):
            lines.append(f"KNOWN-FINDING: property={self.prop} {hit['what']} [key={key}; seen {hit['n']}x]")
        for v in self.violations:
            path = self.write_replay(v)
            v["replay"] = path
            lines.append(f"VIOLATION property={self.prop} replay={path}")
            lines.append(f"  oracle={v.get('oracle')} key={v.get('key')} count={v.get('count')} "
                         f"detail={json.dumps(jsonable(v.get('detail')))[:600]}")
        cov = {
            "evaluations": int(self.evaluations),
            "distinct_nontrivial": int(len(self.nontrivial_signatures)),
            "distinct_total": int(len(self.signatures)),
            "rule": rule,
            "samples": jsonable(self.samples) or [{"note": "no sample recorded"}],
            "runs": int(self.runs),
            "incarnations": int(self.incarnations),
            "runs_per_hour": round(self.runs / max(wall, 1e-9) * 3600.0, 1),
            "seeds_per_hour": round(self.evaluations / max(wall, 1e-9) * 3600.0, 1),
            "sim_time_covered_s": round(self.sim_time, 3),
            "faults_injected": dict(sorted(self.faults.items())),
            "probes": dict(sorted(self.probes.items())),
            "determinism_selftest": self.selftest,
            "known_findings_matched": {k: v["n"] for k, v in self.known_hits.items()},
            "aborted_runs": jsonable(self.aborted),
            "components_real": [
                "all of nessai", "torch/glasflow training and inference", "numpy/scipy", "pickle",
                "real files on tmpfs", "the signal handlers nessai registered",
                "real _exit and fresh forked processes per incarnation",
            ],
            "components_stubbed": [
                "wall clock (virtual)", "OS entropy at interpreter start (seeded)",
                "kernel signal delivery (line-event hook)", "torch zip writer (bytes written through the disk layer)",
                "h5py result writer as one opaque fs event", "multiprocessing.Pool (SimPool) except labelled real-pool cases",
                "user model (zoo)", "plotting / tqdm / logging off",
            ],
            "notes": self.notes,
            "stats": self.stats,
            "workers": self.jobs,
        }
        if exhaustive is not None:
            cov["exhaustive"] = bool(exhaustive)
        if extra:
            cov.update(jsonable(extra))
        ev = {
            "property_id": self.prop,
            "tier": self.tier,
            "seed": int(self.seed),
            "level": self.level,
            "coverage": cov,
            "assumptions": assumptions or [],
            "wall_s": round(wall, 2),
            "violations": nviol,
        }
        if not self.replay:
            edir = os.environ.get("VERIF_EVIDENCE_DIR") or os.path.join(VERIF, "evidence")
            os.makedirs(edir, exist_ok=True)
            with open(os.path.join(edir, f"{self.prop}.json"), "w") as f:
                json.dump(ev, f, indent=1, sort_keys=True)
        for ln in lines:
            print(ln, flush=True)
        print(f"[{self.prop}] tier={self.tier} seed={self.seed} evaluations={self.evaluations} "
              f"distinct_nontrivial={len(self.nontrivial_signatures)} runs={self.runs} "
              f"violations={nviol} known={len(self.known_hits)} wall={wall:.1f}s", flush=True)
        return 1 if nviol else 0


def main(prop, level, body):
    """Entry for a check module: body(runner) -> exit code."""
    env.bootstrap()
    ap = argparse.ArgumentParser()
    ap.add_argument("--tier", default=os.environ.get("VERIF_TIER", "quick"))
    ap.add_argument("--replay", default=None)
    ap.add_argument("--seed", type=int, default=None)
    a = ap.parse_args(sys.argv[1:])
    seed = a.seed if a.seed is not None else int(os.environ.get("VERIF_SEED", "20261004"))
    tier = a.tier if a.tier in ("quick", "thorough") else "quick"
    print(f"[{prop}] VERIF_SEED={seed} tier={tier} repo={env.repo_path()}", flush=True)
    os.environ["NESSAI_SIM_ROOT"] = os.path.join(env.scratch_root(), f"nessai-sim-{os.getpid()}")
    # scratch left behind by runs that were killed (their owner pid is gone)
    import glob
    import shutil as _sh

    for d in glob.glob(os.path.join(env.scratch_root(), "nessai-sim-*")):
        try:
            pid = int(d.rsplit("-", 1)[1])
            os.kill(pid, 0)
        except (ValueError, ProcessLookupError):
            _sh.rmtree(d, ignore_errors=True)
        except PermissionError:
            pass
    try:
        env.import_system()
        r = Runner(prop, level, tier, seed, replay=a.replay)
        code = body(r)
    except Harness as e:
        print(f"HARNESS-ERROR property={prop}: {str(e)[:6000]}", flush=True)
        code = 2
    except Exception:
        print(f"HARNESS-ERROR property={prop}: {traceback.format_exc()}", flush=True)
        code = 2
    finally:
        import shutil

        shutil.rmtree(os.path.join(env.scratch_root(), f"nessai-sim-{os.getpid()}"), ignore_errors=True)
    sys.stdout.flush()
    sys.exit(code)
