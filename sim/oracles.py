"""Independent reference computations used as oracles (kept free of nessai)."""
import math

import numpy as np
from scipy.special import logsumexp


def ref_ns_quadrature(logL, nlive, final_live, expectation="logt"):
    """Documented NS quadrature, reimplemented.

    logL: ascending dead-point log-likelihoods (all returned samples);
    nlive: configured number of live points; final_live: True if the last
    nlive entries are the final live set consumed with decreasing counts.

    Returns dict(logZ_rect, info, log_vols, logZ_trap, log_post_w).
    """
    logL = np.asarray(logL, dtype=float)
    n = len(logL)
    counts = np.full(n, float(nlive))
    if final_live:
        counts[-nlive:] = np.arange(nlive, 0, -1, dtype=float)
    if expectation == "logt":
        logt = -1.0 / counts
    else:
        logt = -np.log1p(1.0 / counts)
    logw = 0.0
    logZ = -math.inf
    info = 0.0
    infos = [0.0]
    log_vols = [0.0]
    for i in range(n):
        Wt = logw + logL[i] + math.log1p(-math.exp(logt[i]))
        newZ = np.logaddexp(logZ, Wt)
        if math.isfinite(logZ) and math.isfinite(newZ) and math.isfinite(logL[i]):
            info = (math.exp(Wt - newZ) * logL[i]
                    + math.exp(logZ - newZ) * (info + logZ) - newZ)
            infos.append(info)
        logZ = newZ
        logw += logt[i]
        log_vols.append(logw)
    lv = np.array(log_vols + [-np.inf])
    ll = np.concatenate([[-np.inf], logL, [logL[-1]]]) if n else np.array([-np.inf, -np.inf])
    func = np.logaddexp(ll[:-1], ll[1:]) - math.log(2)
    with np.errstate(divide="ignore", invalid="ignore"):
        dx = lv[:-1] + np.log1p(-np.exp(lv[1:] - lv[:-1]))
    logZ_trap = float(logsumexp(func + dx))
    log_post = ll[1:-1] + dx[:-1] - logZ_trap
    return {
        "logZ_rect": float(logZ),
        "info": float(infos[-1]),
        "logZ_trap": logZ_trap,
        "log_post_w": log_post,
        "log_vols": np.array(log_vols),
    }


def close(a, b, rtol=1e-9, atol=1e-9):
    a = np.asarray(a, dtype=float)
    b = np.asarray(b, dtype=float)
    if a.shape != b.shape:
        return False
    both_inf = np.isinf(a) & np.isinf(b) & (np.sign(a) == np.sign(b))
    both_nan = np.isnan(a) & np.isnan(b)
    with np.errstate(invalid="ignore"):
        ok = np.abs(a - b) <= atol + rtol * np.abs(b)
    return bool(np.all(ok | both_inf | both_nan))


def kish_ess(log_w):
    log_w = np.asarray(log_w, dtype=float)
    log_w = log_w[np.isfinite(log_w)] if np.any(np.isfinite(log_w)) else log_w
    return float(np.exp(2 * logsumexp(log_w) - logsumexp(2 * log_w)))
