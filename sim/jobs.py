"""Generic job bodies shared by the checks (executed in farm workers)."""
import os

from . import world as W

TERMINAL_HARNESS = (73, 99, "signaled")


def fault_kind_name(f, rec=None):
    k = f["kind"]
    if k == "kill_fs":
        return "kill_torn_write" if f.get("prefix") is not None else "kill_between_fs_ops"
    if k == "kill_fs_after_signal":
        return "kill_during_signal_handler_checkpoint"
    if k == "kill_like":
        return "kill_at_likelihood_call"
    if k == "signal":
        return {15: "signal_SIGTERM", 2: "signal_SIGINT", 14: "signal_SIGALRM"}.get(int(f["signum"]), "signal_other")
    if k == "stall":
        return "clock_stall"
    return k


def summarise(world, outcome):
    """Fold an outcome into the generic result structure used by Runner.absorb."""
    recs = outcome["records"]
    incs = outcome["incarnations"]
    res = {
        "evaluations": 1, "runs": 1, "incarnations": len(incs),
        "sim_time": sum(max(0.0, i["t_end"] - i["t_start"]) for i in incs),
        "faults": {}, "probes": {}, "violations": [], "aborted": [],
        "exits": [i["exit"] for i in incs],
        "digest": W.event_log_digest(recs),
    }
    for r in recs:
        k = r["k"]
        if k == "kill":
            name = fault_kind_name(r["fault"])
            res["faults"][name] = res["faults"].get(name, 0) + 1
        elif k == "signal":
            name = fault_kind_name({"kind": "signal", "signum": r["signum"]})
            res["faults"][name] = res["faults"].get(name, 0) + 1
            if any("safe_file_dump" in s or "__getstate__" in s or ".checkpoint" in s for s in r.get("stack", [])):
                res["faults"]["signal_during_checkpoint"] = res["faults"].get("signal_during_checkpoint", 0) + 1
        elif k == "stall":
            res["faults"]["clock_stall"] = res["faults"].get("clock_stall", 0) + 1
        elif k == "exit":
            for p, n in (r.get("probes") or {}).items():
                res["probes"][p] = res["probes"].get(p, 0) + n
            pool = r.get("pool")
            if pool:
                if pool.get("nonidentity"):
                    res["faults"]["pool_reorder"] = res["faults"].get("pool_reorder", 0) + pool["nonidentity"]
                if pool.get("uneven"):
                    res["faults"]["pool_uneven_assignment"] = res["faults"].get("pool_uneven_assignment", 0) + pool["uneven"]
        elif k == "violation":
            res["violations"].append({
                "oracle": r["oracle"], "key": r["oracle"], "detail": dict(r.get("detail") or {}, phase=r.get("phase"),
                                                                          iteration=r.get("iteration"), inc=r["i"]),
                "world": world,
            })
        elif k == "harness_error":
            res["harness_error"] = {"what": r.get("what"), "tb": r.get("tb"), "world": world}
        elif k == "constructed" and r.get("resumed"):
            res["faults"]["restart_fresh_process"] = res["faults"].get("restart_fresh_process", 0) + 1
            res["probes"]["resumed"] = res["probes"].get("resumed", 0) + 1
    if len(incs) > 1:
        dts = [b["t_start"] - a["t_end"] for a, b in zip(incs, incs[1:])]
        res["faults"]["downtime_jump"] = len(dts)
    last = incs[-1]["exit"]
    if last in TERMINAL_HARNESS:
        res["harness_error"] = {"what": f"incarnation ended with {last}", "world": world,
                                "exits": res["exits"]}
    if last == 70:
        ex = [r for r in recs if r["k"] == "exception"]
        res["aborted"].append({"type": ex[-1]["type"] if ex else "?", "msg": ex[-1]["msg"][:300] if ex else "",
                               "phase": ex[-1].get("phase") if ex else None,
                               "tb": ex[-1]["tb"][-1200:] if ex else ""})
    if last == "wall_timeout":
        # harness robustness limit (a loop with few nessai line events but expensive numpy work can outrun
        # the step budget in wall time): the run is inconclusive, it is neither a verdict nor a harness error
        res["probes"]["inconclusive_wall_limit"] = 1
    res["finished"] = last == 0
    res["wall_s"] = round(outcome.get("wall_s", 0.0), 2)
    return res


def plain_world_job(world):
    """Run a world, return the generic summary (child-side oracles only)."""
    out = W.run_world(world)
    res = summarise(world, out)
    res["records_kept"] = None
    return res
