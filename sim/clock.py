"""Virtual clock.

Every ``nessai.*`` module that bound the stdlib ``datetime`` / ``time`` module
as a global gets that name rebound to a shim reading this clock. The clock
only advances at simulator events by amounts fixed by the scenario.
"""
import datetime as _dt
import sys
import time as _time

EPOCH = _dt.datetime(2030, 1, 1, 0, 0, 0)


class Clock:
    def __init__(self, t0=0.0, per_point=1e-3, train=0.5, io=0.01, populate=0.05):
        self.t = float(t0)
        self.t0 = float(t0)
        self.per_point = per_point
        self.train = train
        self.io = io
        self.populate = populate

    def advance(self, dt):
        if dt < 0:
            raise ValueError("virtual clock is monotone")
        self.t += dt


CLOCK = Clock()


class VDateTime(_dt.datetime):
    """datetime subclass whose now() reads the virtual clock (picklable)."""

    @classmethod
    def now(cls, tz=None):
        d = EPOCH + _dt.timedelta(seconds=CLOCK.t)
        return cls(d.year, d.month, d.day, d.hour, d.minute, d.second, d.microsecond)

    @classmethod
    def utcnow(cls):
        return cls.now()


class _DatetimeShim:
    datetime = VDateTime
    timedelta = _dt.timedelta
    date = _dt.date
    timezone = _dt.timezone

    def __getattr__(self, name):
        return getattr(_dt, name)


class _TimeShim:
    @staticmethod
    def time():
        return (EPOCH - _dt.datetime(1970, 1, 1)).total_seconds() + CLOCK.t

    @staticmethod
    def perf_counter():
        return CLOCK.t

    @staticmethod
    def monotonic():
        return CLOCK.t

    @staticmethod
    def sleep(s):
        CLOCK.advance(max(0.0, s))

    def __getattr__(self, name):
        return getattr(_time, name)


DATETIME_SHIM = _DatetimeShim()
TIME_SHIM = _TimeShim()


def install(clock):
    """Rebind module globals of all loaded nessai modules. Returns count."""
    global CLOCK
    CLOCK = clock
    n = 0
    for name, mod in list(sys.modules.items()):
        if mod is None or not (name == "nessai" or name.startswith("nessai.")):
            continue
        d = getattr(mod, "__dict__", None)
        if d is None:
            continue
        for k, v in list(d.items()):
            if v is _dt:
                d[k] = DATETIME_SHIM
                n += 1
            elif v is _time:
                d[k] = TIME_SHIM
                n += 1
            elif v is _dt.datetime:
                d[k] = VDateTime
                n += 1
    return n
