"""C20 — every algorithmic option runs to completion or is rejected up front (DESIGN.md 5.20).

A table of documented algorithmic options with documented values; each value
on its own against a small default configuration, then a pairwise covering
array generated from the seed, on 2- and 3-parameter models. Verdict per run:
OK-REJECTED (exception before the first likelihood evaluation of the sampling
phase), OK-COMPLETED (run() returned and the result invariants hold), violation
(exception after sampling started or after it finished, result invariants
broken, or the step budget exhausted = bounded liveness in simulated steps).
"""
import copy
import json
import os
import sys

sys.path.insert(0, os.path.dirname(os.path.abspath(__file__)))
sys.path.insert(0, os.path.dirname(os.path.dirname(os.path.abspath(__file__))))

from sim import jobs as J  # noqa: E402
from sim import rng as R  # noqa: E402
from sim import runner  # noqa: E402
from sim import world as W  # noqa: E402

PROP = "C20"
BUDGET = 3_000_000  # ~30x the nominal cost of the default configuration at this size

NS_BASE = dict(nlive=30, plot=False, stopping=0.5, checkpoint_on_iteration=True, checkpoint_interval=25,
               poolsize=30, maximum_uninformed=30,
               flow_config=dict(n_blocks=2, n_neurons=4, n_layers=1),
               training_config=dict(max_epochs=5, patience=3))
INS_BASE = dict(nlive=60, plot=False, min_samples=20, max_iteration=4, checkpoint_on_iteration=True,
                checkpoint_interval=2,
                flow_config=dict(n_blocks=2, n_neurons=4, n_layers=1),
                training_config=dict(max_epochs=5, patience=3))

# option name -> list of documented values (the default is implied and not listed)
NS_OPTIONS = {
    "flow_proposal_class": ["FlowProposal", "AugmentedFlowProposal", "ClusteringFlowProposal"],
    "flow_config.ftype": ["realnvp", "maf", "nsf"],
    "flow_config.linear_transform": [None, "permutation", "lu", "svd"],
    "flow_config.batch_norm_between_layers": [True],
    "flow_config.activation": ["relu", "tanh", "swish"],
    "flow_config.dropout_probability": [0.1],
    "flow_config.n_layers": [2],
    "training_config.noise_type": [("noise", {"noise_type": "constant", "noise_scale": 0.01}),
                                   ("adaptive", {"noise_type": "adaptive", "noise_scale": 0.1})],
    "training_config.annealing": [True],
    "training_config.optimiser": ["adam", "sgd"],
    "training_config.batch_size": [8, 1000],
    "training_config.val_size": [0.0, 0.3],
    "training_config.use_dataloader": [True],
    "training_config.clip_grad_norm": [None, 1.0],
    "latent_prior": ["gaussian", "uniform", "uniform_nsphere", "uniform_nball", "flow"],
    "constant_volume_mode": [False],
    "volume_fraction": [0.5, 0.99],
    "fixed_radius": [2.0],
    "min_radius": [1.0],
    "max_radius": [2.0, False],
    "fuzz": [1.2],
    "expansion_fraction": [1.0, None],
    "compute_radius_with_all": [True],
    "truncate_log_q": [True],
    "accumulate_weights": [True],
    "check_acceptance": [True],
    "update_poolsize": [False],
    "drawsize": [10, 200],
    "poolsize": [10, 100],
    "reparameterisations": [("default", {"x0": "default"}), ("zscore", {"z-score": {"parameters": ["x0", "x1"]}}),
                            ("inversion", {"x0": "inversion"}), ("inversion-duplicate", {"x0": "inversion-duplicate"}),
                            ("logit", {"x0": "logit"}), ("null", {"null": {"parameters": ["x0", "x1"]}}),
                            ("rescale", {"x0": {"reparameterisation": "rescale", "scale": 2.0}}),
                            ("offset", {"x0": "offset"}), ("log-rescale", {"x0": "log-rescale"}),
                            ("prime-prior", {"rescaletobounds": {"parameters": ["x0", "x1"], "update_bounds": True,
                                                                 "prior": "uniform"}})],
    "fallback_reparameterisation": ["rescaletobounds", None],
    "reverse_reparameterisations": [True],
    "reset_weights": [True, 2],
    "reset_permutations": [True],
    "reset_flow": [True, 2],
    "retrain_acceptance": [False],
    "reset_acceptance": [True],
    "acceptance_threshold": [0.5],
    "memory": [10],
    "training_frequency": [5],
    "train_on_empty": [False],
    "cooldown": [5],
    "maximum_uninformed": [False, 5, None],
    "uninformed_acceptance_threshold": [0.9],
    "prior_sampling": [True],
    "shrinkage_expectation": ["t"],
    "checkpoint_on_training": [True],
    "max_iteration": [20],
    "run.posterior_sampling_method": ["rejection_sampling", "multinomial_resampling", "importance_sampling"],
}

# interaction groups (phase 2b): options read by the same branches
NS_GROUP = ["flow_proposal_class", "latent_prior", "constant_volume_mode", "volume_fraction", "fixed_radius",
            "min_radius", "max_radius", "fuzz", "expansion_fraction", "compute_radius_with_all", "truncate_log_q",
            "accumulate_weights"]
INS_GROUP = ["threshold_method", "n_update", "strict_threshold", "replace_all", "draw_constant", "draw_iid_live",
             "min_remove", "max_samples"]

INS_OPTIONS = {
    "threshold_method": [("quantile", {"threshold_method": "quantile", "threshold_kwargs": {"q": 0.8}}),
                         ("quantile+L", {"threshold_method": "quantile",
                                         "threshold_kwargs": {"q": 0.5, "include_likelihood": True}}),
                         ("entropy", {"threshold_method": "entropy", "threshold_kwargs": {"q": 0.5}}),
                         ("entropy-linear", {"threshold_method": "entropy",
                                             "threshold_kwargs": {"q": 0.5, "use_log_weights": False}})],
    "n_update": [10],
    "stopping_criterion": ["ratio", "ratio_all", "ratio_ns", "Z_err", "evidence_error", "log_dZ", "log_evidence",
                           "ess", "fractional_error"],
    "multi_criteria": [("any", {"stopping_criterion": ["ratio", "log_dZ"], "tolerance": [0.0, 0.1],
                                "check_criteria": "any"}),
                       ("all", {"stopping_criterion": ["ratio", "ess"], "tolerance": [0.0, -1.0],
                                "check_criteria": "all"})],
    "strict_threshold": [True],
    "replace_all": [True],
    "draw_constant": [False],
    "draw_iid_live": [False],
    "weighted_kl": [True, False],
    "reset_flow": [False, 2],
    "clip": [True],
    "reparameterisation": [None],
    "save_log_q": [True],
    "min_remove": [10],
    "max_samples": [100],
    "min_iteration": [2],
    "flow_config.ftype": ["maf", "nsf"],
    "run.redraw_samples": [("redraw", {"redraw_samples": True}),
                           ("redraw+n_post", {"redraw_samples": True, "n_posterior_samples": 50}),
                           ("redraw+use_counts", {"redraw_samples": True, "use_counts": True}),
                           ("redraw+optimise_kl", {"redraw_samples": True, "optimise_weights": True,
                                                   "optimisation_method": "kl"}),
                           ("redraw+optimise_evidence", {"redraw_samples": True, "optimise_weights": True,
                                                         "optimisation_method": "evidence"}),
                           ("redraw+initial_posterior", {"redraw_samples": True, "compute_initial_posterior": True})],
    "bootstrap": [True],
    "train_final_flow": [True],
    "run.posterior_sampling_method": ["rejection_sampling", "multinomial_resampling", "importance_sampling"],
}


def label(opt, val):
    if isinstance(val, tuple):
        return f"{opt}={val[0]}"
    return f"{opt}={val!r}"


def apply_option(kwargs, run_kwargs, opt, val, dims):
    v = val[1] if isinstance(val, tuple) else val
    if opt.startswith("run."):
        if isinstance(v, dict):
            run_kwargs.update(v)
        else:
            run_kwargs[opt[4:]] = v
        return
    if opt.startswith("flow_config.") or opt.startswith("training_config."):
        top, key = opt.split(".", 1)
        kwargs.setdefault(top, {})
        kwargs[top] = dict(kwargs[top])
        if isinstance(v, dict):
            kwargs[top].update(v)
        else:
            kwargs[top][key] = v
        return
    if opt in ("threshold_method", "multi_criteria") and isinstance(v, dict):
        kwargs.update(copy.deepcopy(v))
        return
    if opt == "reparameterisations":
        v = copy.deepcopy(v)
        for k, cfg in list(v.items()):
            if isinstance(cfg, dict) and "parameters" in cfg:
                cfg["parameters"] = [f"x{i}" for i in range(dims)]
    if opt == "stopping_criterion" and not isinstance(v, list):
        kwargs["stopping_criterion"] = v
        kwargs["tolerance"] = {"ess": -1.0, "log_dZ": 0.05, "log_evidence": 0.05, "Z_err": 1.05,
                               "evidence_error": 1.05, "fractional_error": 0.05, "ratio_ns": -2.0,
                               "ratio_all": -1.0, "ratio": -1.0}[v]
        return
    kwargs[opt] = v


def make_world(seed, sampler, dims, assignment, k):
    base = copy.deepcopy(NS_BASE if sampler == "ns" else INS_BASE)
    run_kwargs = {}
    for opt, val in assignment:
        apply_option(base, run_kwargs, opt, val, dims)
    base["seed"] = R.seed32(seed, "c20-run-seed", k)
    scn = {"sampler": sampler, "model": {"name": "gauss", "dims": dims}, "kwargs": base, "run_kwargs": run_kwargs,
           "clock": {"per_point": 1e-3, "train": 0.5, "io": 0.01, "populate": 0.05}}
    return {"seed": R.derive(seed, "c20-world", k), "scenario": scn, "monitors": ["res"], "plan": [],
            "budget_steps": BUDGET, "record_fs": False}


def verdict(world, out):
    recs = out["records"]
    last = out["incarnations"][-1]["exit"]
    started = any(r["k"] == "sampling_started" for r in recs)
    loop_exit = any(r["k"] == "loop_exit" for r in recs)
    if last == 0:
        return "OK-COMPLETED", None
    if last == 70:
        e = [r for r in recs if r["k"] == "exception"][-1]
        if not started:
            return "OK-REJECTED", {"exception": e["type"], "msg": e["msg"][:200]}
        when = "after-sampling-finished" if loop_exit else "during-sampling"
        return "FAILED-" + when, {"exception": e["type"], "site": e.get("site"), "msg": e["msg"][:300],
                                  "tb": e["tb"][-900:], "points_spent": e.get("api_points")}
    if last == 72:
        b = [r for r in recs if r["k"] == "budget_exhausted"]
        ph, pe = (b[-1].get("progress_half"), b[-1].get("progress_end")) if b else (None, None)
        if ph and pe and ph.get("loop") == pe.get("loop") and ph.get("value") is not None \
                and pe.get("value") is not None and pe["value"] > ph["value"]:
            # the loop is still accepting points: slow (tiny, barely trained flows), not stuck
            return "INCONCLUSIVE-SLOW", {"loop": pe["loop"], "progress": [ph["value"], pe["value"]]}
        if ph and pe and ph.get("loop") != pe.get("loop"):
            return "INCONCLUSIVE-SLOW", {"loops": [ph.get("loop"), pe.get("loop")]}
        if not (ph and pe):
            return "INCONCLUSIVE-SLOW", {"what": "budget exhausted outside a population loop"}
        if pe.get("bounded_by_max_samples"):
            # accumulate_weights mode stops at max_samples proposals by construction
            return "INCONCLUSIVE-SLOW", {"loop": pe["loop"], "n_proposed": [ph.get("n_proposed"), pe.get("n_proposed")]}
        return "NO-PROGRESS", {"progress_half": ph, "progress_end": pe, "steps": b[-1]["steps"] if b else None, "stack": (b[-1].get("stack") or [])[:10] if b else None,
                               "site": b[-1].get("site") if b else None}
    if last == 71:
        v = [r for r in recs if r["k"] == "violation"][-1]
        return "RESULT-INVARIANT", {"oracle": v["oracle"], "detail": v.get("detail")}
    if last == "wall_timeout":
        return "INCONCLUSIVE-SLOW", {"what": "harness wall limit reached before the step budget"}
    return "HARNESS", {"exit": last}


def option_job(job):
    world = job["world"]
    out = W.run_world(world)
    res = J.summarise(world, out)
    res["violations"] = []
    res["aborted"] = []
    v, d = verdict(world, out)
    res["verdict"] = v
    res["vdetail"] = d
    res["labels"] = job["labels"]
    res["sampler"] = world["scenario"]["sampler"]
    res["world"] = world
    if v == "HARNESS" and not res.get("harness_error"):
        res["harness_error"] = {"what": "unexpected exit", "detail": d, "world": world}
    return res


LOOP_OWNERS = ("FlowProposal.populate", "ImportanceFlowProposal.draw", "ImportanceFlowProposal.draw_from_flows",
               "Model._multiple_new_points", "Model._single_new_point", "NestedSampler.populate_live_points",
               "ImportanceNestedSampler.populate_live_points", "ImportanceNestedSampler.draw_final_samples",
               "NestedSampler.yield_sample", "FlowModel.train")


def sig_of(res):
    d = res.get("vdetail") or {}
    if res["verdict"] == "NO-PROGRESS":
        # the loop that burnt the budget and why it accepts nothing, not the line at which the counter ran out
        pe = d.get("progress_end") or {}
        return (res["verdict"], f"{pe.get('loop')}|{pe.get('cause')}")
    if d.get("exception"):
        # identified by the failing call site: exception type @ innermost nessai function
        return (res["verdict"], f"{d['exception']}@{d.get('site')}")
    return (res["verdict"], d.get("oracle"))


def pairwise_rows(options, rr, n_rows):
    """Greedy randomised covering array over (option, value) pairs: each row assigns a
    value (or the default) to a random subset of options so that all pairs get covered."""
    names = sorted(options)
    need = set()
    for i, a in enumerate(names):
        for b in names[i + 1:]:
            for va in range(len(options[a])):
                for vb in range(len(options[b])):
                    need.add((a, va, b, vb))
    rows = []
    while need and len(rows) < n_rows:
        best, best_cov = None, -1
        for _ in range(12):
            k = rr.choice([2, 2, 3, 4])
            chosen = rr.sample(names, k)
            row = sorted((o, rr.randrange(len(options[o]))) for o in chosen)
            cov = 0
            for i, (a, va) in enumerate(row):
                for (b, vb) in row[i + 1:]:
                    if (a, va, b, vb) in need:
                        cov += 1
            if cov > best_cov:
                best, best_cov = row, cov
        if best_cov <= 0:
            a, va, b, vb = rr.choice(sorted(need))
            best = [(a, va), (b, vb)]
        for i, (a, va) in enumerate(best):
            for (b, vb) in best[i + 1:]:
                need.discard((a, va, b, vb))
        rows.append(best)
    return rows, len(need)


def body(r):
    seed, tier = r.seed, r.tier
    if r.replay:
        with open(r.replay) as f:
            rep = json.load(f)
        res = option_job({"world": rep["world"], "labels": rep.get("job", {}).get("labels", ["replay"])})
        if res.get("harness_error"):
            raise runner.Harness(str(res["harness_error"])[:2000])
        r.absorb(res)
        if res["verdict"] not in ("OK-COMPLETED", "OK-REJECTED", "INCONCLUSIVE-SLOW"):
            r.report({"oracle": "C20-" + res["verdict"], "key": rep["key"], "detail": res["vdetail"],
                      "world": rep["world"], "job": rep.get("job")})
        return r.finish("replay of one option run")
    rr = R.stream(seed, "c20")
    jobs = []
    k = 0
    seeds = [0] if tier == "quick" else [0, 1, 2]
    dims_list = [2] if tier == "quick" else [2, 3]
    # baselines
    for sampler in ("ns", "ins"):
        for dims in dims_list:
            jobs.append({"world": make_world(seed, sampler, dims, [], k), "labels": [f"{sampler}:default"],
                         "kind": "single"})
            k += 1
    for sampler, options in (("ns", NS_OPTIONS), ("ins", INS_OPTIONS)):
        for opt in sorted(options):
            for val in options[opt]:
                for dims in dims_list:
                    for s in seeds:
                        jobs.append({"world": make_world(seed + s, sampler, dims, [(opt, val)], k),
                                     "labels": [f"{sampler}:{label(opt, val)}"], "kind": "single"})
                        k += 1
    results = r.map(option_job, jobs, "single-options")
    # failing singles: signature per option value
    single_fail = {}
    for job, res in zip(jobs, results):
        if res.get("harness_error"):
            raise runner.Harness(json.dumps(res["harness_error"], default=repr)[:3000])
        if job["kind"] == "single" and res["verdict"] not in ("OK-COMPLETED", "OK-REJECTED", "INCONCLUSIVE-SLOW"):
            single_fail.setdefault(res["labels"][0], set()).add(sig_of(res))
    # phase 2: pairwise covering array over the values that do not already fail on their own
    # (a failing value is reported as a single; it would poison every combination containing it)
    n_pair = {"quick": 70, "thorough": 4000}[tier]
    uncovered = {}
    pjobs = []
    for sampler, options, share in (("ns", NS_OPTIONS, 0.6), ("ins", INS_OPTIONS, 0.4)):
        healthy = {}
        for o, vals in options.items():
            keep = [v for v in vals if f"{sampler}:{label(o, v)}" not in single_fail]
            if keep:
                healthy[o] = keep
        rows, left = pairwise_rows(healthy, rr, int(n_pair * share))
        uncovered[sampler] = left
        for row in rows:
            assignment = [(o, healthy[o][vi]) for o, vi in row]
            dims = rr.choice(dims_list)
            pjobs.append({"world": make_world(seed, sampler, dims, assignment, k),
                          "labels": [f"{sampler}:{label(o, v)}" for o, v in assignment], "kind": "pair",
                          "sampler": sampler, "dims": dims, "k": k,
                          "row": [[o, healthy[o].index(v)] for o, v in assignment],
                          "healthy": None})
            pjobs[-1]["_assignment"] = assignment
            k += 1
    # phase 2b: interaction groups. Options that guard the same branches of the code (population geometry of the
    # flow proposal; level bookkeeping of the importance sampler) are also run as *pure* pairs, every value against
    # every value of the other options of the group: a covering-array row assigns many options at once, and one of
    # them (a fixed radius, say) can switch off the very branch another pair of the row would have reached.
    for sampler, options, group in (("ns", NS_OPTIONS, NS_GROUP), ("ins", INS_OPTIONS, INS_GROUP)):
        vals = [(o, v) for o in group for v in options[o] if f"{sampler}:{label(o, v)}" not in single_fail]
        for i, (o1, v1) in enumerate(vals):
            for o2, v2 in vals[i + 1:]:
                if o1 == o2:
                    continue
                assignment = [(o1, v1), (o2, v2)]
                pjobs.append({"world": make_world(seed, sampler, dims_list[0], assignment, k),
                              "labels": [f"{sampler}:{label(o, v)}" for o, v in assignment], "kind": "group-pair",
                              "sampler": sampler, "dims": dims_list[0], "k": k, "row": None, "healthy": None})
                pjobs[-1]["_assignment"] = assignment
                k += 1
    presults = r.map(option_job, pjobs, "option-pairs")
    for res in presults:
        if res.get("harness_error"):
            raise runner.Harness(json.dumps(res["harness_error"], default=repr)[:3000])
    # reduce every failing combination to a minimal failing subset of its options (same failure signature), so
    # that the finding is identified by the options that matter and not by the row the covering array put them in
    import itertools

    red_jobs = []
    for pj, res in zip(pjobs, presults):
        if res["verdict"] in ("OK-COMPLETED", "OK-REJECTED", "INCONCLUSIVE-SLOW"):
            continue
        asg = pj["_assignment"]
        if len(asg) <= 2:
            continue
        for size in (2, 3):
            if size >= len(asg):
                break
            for sub in itertools.combinations(range(len(asg)), size):
                sub_asg = [asg[i] for i in sub]
                red_jobs.append({"world": make_world(seed, pj["sampler"], pj["dims"], sub_asg, pj["k"]),
                                 "labels": [f"{pj['sampler']}:{label(o, v)}" for o, v in sub_asg], "kind": "reduce",
                                 "parent": id(pj), "size": size})
    red_results = r.map(option_job, red_jobs, "reduce-failing-rows") if red_jobs else []
    minimal = {}
    for rj, rres in zip(red_jobs, red_results):
        if rres.get("harness_error"):
            continue
        minimal.setdefault(rj["parent"], []).append((rj["size"], rj["labels"], sig_of(rres), rres["verdict"]))
    for pj, res in zip(pjobs, presults):
        cands = sorted((c for c in minimal.get(id(pj), []) if c[2] == sig_of(res)), key=lambda c: (c[0], c[1]))
        if cands:
            res["minimal_labels"] = cands[0][1]
    for pj in pjobs:
        pj.pop("_assignment", None)
    jobs = jobs + pjobs
    results = results + presults
    tally = {}
    for job, res in zip(jobs, results):
        r.absorb({kk: v for kk, v in res.items() if kk in ("evaluations", "runs", "incarnations", "sim_time", "faults",
                                                           "probes", "wall_s")})
        v = res["verdict"]
        tally[v] = tally.get(v, 0) + 1
        sig = "|".join(res["labels"]) + "|" + v
        r.signatures.add(sig)
        if v != "OK-REJECTED":
            r.nontrivial_signatures.add(sig)
        if v in ("OK-COMPLETED", "OK-REJECTED"):
            continue
        if v == "INCONCLUSIVE-SLOW":
            r.count(r.probes, "inconclusive_slow_population")
            continue
        labels = res["labels"]
        # attribute a failing combination to a failing single it contains (same failure signature)
        owner = [lb for lb in labels if sig_of(res) in single_fail.get(lb, ())]
        key_labels = owner[:1] if owner else res.get("minimal_labels", labels)
        if v == "NO-PROGRESS":
            # a stuck population loop is identified by the loop and the cause, whatever options led to it
            key = f"C20|NO-PROGRESS|{sig_of(res)[1]}"
        elif (res.get("vdetail") or {}).get("exception"):
            # an exception after sampling started is identified by exception type and failing call site; the
            # (minimal) option set that triggers it is reported in the detail
            key = f"C20|{v}|{sig_of(res)[1]}"
        else:
            key = f"C20|{v}|{'&'.join(sorted(key_labels))}|{sig_of(res)[1]}"
        r.report({"oracle": "C20-" + v, "key": key,
                  "detail": dict(res["vdetail"] or {}, options=labels, attributed_to=key_labels),
                  "world": res["world"], "job": {"labels": labels}})
        if len(r.samples) < 6:
            r.samples.append({"options": labels, "verdict": v})
    for job, res in list(zip(jobs, results))[:3]:
        r.samples.append({"options": res["labels"], "verdict": res["verdict"],
                          "detail": (res["vdetail"] or {}).get("exception")})
    r.selftest = {"pairs": 0, "equal": 0}
    return r.finish(
        rule=("table of documented algorithmic options (NS: %d options / %d values; INS: %d options / %d values); every "
              "value on its own against a small default configuration, then a seeded greedy pairwise covering array "
              "(rows of 2-4 options), gauss models in 2 (thorough: and 3) parameters, 1 (thorough: 3) seeds. Verdict "
              "per run from the model seam and the step counter: rejected before the first sampling-phase "
              "likelihood evaluation = ok; completed with RES-* = ok; exception after sampling started / after it "
              "finished, broken result invariant, or step budget (%d nessai line events) exhausted while the population "
              "loop's acceptance counter did not move between half and full budget = violation (a loop that is still "
              "accepting points is reported as inconclusive-slow, not as a violation). "
              "distinct = (option labels, verdict); non-trivial = not rejected up front.")
        % (len(NS_OPTIONS), sum(len(v) for v in NS_OPTIONS.values()), len(INS_OPTIONS),
           sum(len(v) for v in INS_OPTIONS.values()), BUDGET),
        extra={"verdicts": tally, "pairs_left_uncovered": uncovered},
        assumptions=["values stay inside documented ranges; tiny flows and 5 training epochs are harness choices",
                     "bounded liveness is measured in simulated steps (nessai line events), never wall-clock"],
    )


if __name__ == "__main__":
    runner.main(PROP, "exploration", body)
