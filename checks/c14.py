"""C14 — seeded runs are reproducible and independent of parallelisation settings (DESIGN.md 5.14)."""
import json
import os
import subprocess
import sys
import tempfile

sys.path.insert(0, os.path.dirname(os.path.abspath(__file__)))
sys.path.insert(0, os.path.dirname(os.path.dirname(os.path.abspath(__file__))))

from sim import jobs as J  # noqa: E402
from sim import rng as R  # noqa: E402
from sim import runner  # noqa: E402
from sim import scenarios as S  # noqa: E402
from sim import scenarios_ins as SI  # noqa: E402
from sim import world as W  # noqa: E402

PROP = "C14"
VERIF = os.path.dirname(os.path.dirname(os.path.abspath(__file__)))


def base_scenario(seed, n, sampler):
    for k in range(50):
        scn = S.ns_scenario(seed, n * 100 + k) if sampler == "ns" else SI.ins_scenario(seed, n * 100 + k)
        if scn["model"]["name"] not in ("gauss", "gauss_nonuniform"):
            continue  # exactly rounded, vectorised likelihoods only
        kw = scn["kwargs"]
        if kw.get("maximum_uninformed") is False or kw.get("flow_proposal_class") == "AugmentedFlowProposal":
            continue  # keep the reference cheap
        scn.pop("pool", None)
        kw.pop("likelihood_chunksize", None)
        return scn
    raise RuntimeError("no scenario")


def variants(scn, r, tier, ref_seed):
    """(label, scenario) variants that must reproduce the reference digest."""
    import copy

    out = [("again", copy.deepcopy(scn), {})]
    nv = 6 if tier == "quick" else 12
    for _ in range(nv):
        v = copy.deepcopy(scn)
        k = r.choice([1, 2, 3, 4])
        label = f"simpool{k}"
        v["pool"] = {"k": k, "sched": r.randrange(10 ** 6), "mode": r.choice(["shuffle", "shuffle", "reverse"])}
        if r.random() < 0.5:
            cs = r.choice([1, 2, 3, 7, 50, 100000])
            v["kwargs"]["likelihood_chunksize"] = cs
            label += f"+chunk{cs}"
        if r.random() < 0.4:
            v["kwargs"]["parallelise_prior"] = True
            label += "+pprior"
        out.append((label, v, {}))
    for cs in ([1, 100000] if tier == "quick" else [1, 3, 7, 64, 100000]):
        v = copy.deepcopy(scn)
        v["kwargs"]["likelihood_chunksize"] = cs
        out.append((f"nopool+chunk{cs}", v, {}))
    if tier == "thorough":
        for k in (1, 2, 3, 4):
            v = copy.deepcopy(scn)
            v["pool"] = {"k": k, "real": True, "via": r.choice(["n_pool", "user"])}
            out.append((f"realpool{k}:{v['pool']['via']}", v, {"real_pool": True}))
    return out


def mkworld(seed, scn):
    return {"seed": seed, "scenario": scn, "monitors": [], "plan": [], "budget_steps": 12_000_000,
            "record_fs": False}


def variant_job(job):
    world = job["world"]
    if job.get("fresh_interpreter"):
        with tempfile.NamedTemporaryFile("w", suffix=".json", delete=False, dir="/dev/shm") as f:
            json.dump(world, f)
            path = f.name
        env = dict(os.environ, PYTHONHASHSEED=str(job["hashseed"]), NESSAI_SIM_BOOT="1")
        env.pop("NESSAI_SIM_ROOT", None)
        try:
            p = subprocess.run([sys.executable, os.path.join(VERIF, "bin", "nessai-sim"), "run-world", path],
                               capture_output=True, text=True, timeout=600, env=env)
        finally:
            os.unlink(path)
        line = [ln for ln in p.stdout.splitlines() if ln.startswith("NESSAI-SIM-RESULT ")]
        if not line:
            return {"harness_error": {"what": "fresh interpreter produced no result", "stderr": p.stderr[-1500:]},
                    "label": job["label"], "scn": job["scn"]}
        d = json.loads(line[0][len("NESSAI-SIM-RESULT "):])
        return {"label": job["label"], "scn": job["scn"], "run_digest": d["run_digest"], "evals": d["evals"],
                "exits": d["exits"], "evaluations": 1, "runs": 1, "incarnations": 1, "faults": {"fresh_interpreter_other_hashseed": 1},
                "probes": {}, "violations": [], "aborted": [], "sim_time": 0.0, "world": world}
    out = W.run_world(world, base_dir=W.world_dir(world, tag=f"{job['label']}-{os.getpid()}"))
    res = J.summarise(world, out)
    rd = [r for r in out["records"] if r["k"] == "run_digest"]
    res["run_digest"] = rd[-1]["digest"] if rd else None
    res["evals"] = rd[-1]["evals"] if rd else None
    res["label"] = job["label"]
    res["scn"] = job["scn"]
    res["world"] = world
    res["violations"] = []
    if world["scenario"].get("pool", {}).get("real"):
        res["faults"]["real_fork_pool"] = 1
    return res


def body(r):
    seed, tier = r.seed, r.tier
    if r.replay:
        with open(r.replay) as f:
            rep = json.load(f)
        jobs = [{"world": rep["job"]["reference"], "label": "reference", "scn": 0},
                {"world": rep["world"], "label": rep["job"]["label"], "scn": 0}]
        res = r.map(variant_job, jobs, "replay")
        for x in res:
            r.absorb(x)
        if res[0]["run_digest"] != res[1]["run_digest"] or res[0]["evals"] != res[1]["evals"]:
            r.report({"oracle": "C14-digest", "key": f"C14-digest|{rep['job']['label'].split('+')[0]}",
                      "detail": {"label": rep["job"]["label"]}, "world": rep["world"], "job": rep["job"]})
        return r.finish("replay of one (reference, variant) pair")
    n_ns, n_ins = (4, 3) if tier == "quick" else (90, 60)
    rr = R.stream(seed, "c14")
    jobs = []
    scns = []
    for i in range(n_ns + n_ins):
        sampler = "ns" if i < n_ns else "ins"
        scn = base_scenario(seed, 300 + i, sampler)
        scns.append(scn)
        ws = R.derive(seed, "c14-world", i)
        if i in (0, n_ns):
            # 0 is a legal seed (and falsy)
            scn["kwargs"]["seed"] = 0
        jobs.append({"world": mkworld(ws, scn), "label": "reference", "scn": i})
        for label, v, extra in variants(scn, rr, tier, ws):
            # every variant starts from different interpreter-start entropy (world seed): the run seed alone
            # must determine the results
            jobs.append({"world": mkworld(R.derive(ws, "entropy", label), v), "label": label, "scn": i, **extra})
        # a different seed must give a different digest (guards against a degenerate digest)
        import copy

        other = copy.deepcopy(scn)
        other["kwargs"]["seed"] = (scn["kwargs"]["seed"] + 1) % (2 ** 32 - 1)
        jobs.append({"world": mkworld(R.derive(ws, "entropy", "other"), other), "label": "other-seed", "scn": i})
        if i < (2 if tier == "quick" else 12):
            jobs.append({"world": mkworld(R.derive(ws, "entropy", "fresh"), scn), "label": "fresh-interpreter-hashseed", "scn": i,
                         "fresh_interpreter": True, "hashseed": 12345 + i})
    results = r.map(variant_job, jobs, "variants")
    by_scn = {}
    for res in results:
        if res.get("harness_error"):
            raise runner.Harness(json.dumps(res["harness_error"])[:3000])
        by_scn.setdefault(res["scn"], []).append(res)
    for i, group in by_scn.items():
        ref = [g for g in group if g["label"] == "reference"][0]
        ok_ref = ref["run_digest"] is not None
        for g in group:
            r.absorb({k: v for k, v in g.items() if k in ("evaluations", "runs", "incarnations", "sim_time", "faults",
                                                          "probes", "aborted", "wall_s")})
            sig = f"{scns[i]['sampler']}|{scns[i]['model']['name']}|{g['label'].split(':')[0]}"
            r.signatures.add(sig)
            if g["run_digest"] is not None:
                r.nontrivial_signatures.add(sig)
            if not ok_ref:
                continue
            if g["label"] == "reference":
                continue
            if g["label"] == "other-seed":
                if g["run_digest"] == ref["run_digest"]:
                    r.report({"oracle": "C14-degenerate-digest", "key": "C14-degenerate-digest",
                              "detail": {"scenario": i}, "world": g["world"],
                              "job": {"label": g["label"], "reference": ref["world"]}})
                continue
            gex = (g.get("exits") or [None])[-1]
            if g["run_digest"] is None and gex in (72, "wall_timeout"):
                # the variant ran out of its step / wall budget (chunk size 1 multiplies the nessai line events
                # per evaluation): inconclusive, not a different result
                r.count(r.probes, "variant_inconclusive_budget")
                continue
            if g["run_digest"] != ref["run_digest"] or g["evals"] != ref["evals"]:
                r.report({"oracle": "C14-digest", "key": f"C14-digest|{g['label'].split('+')[0].rstrip('0123456789')}",
                          "detail": {"variant": g["label"], "reference_digest": ref["run_digest"],
                                     "variant_digest": g["run_digest"], "reference_evals": ref["evals"],
                                     "variant_evals": g["evals"], "exits": g.get("exits"),
                                     "sampler": scns[i]["sampler"]},
                          "world": g["world"], "job": {"label": g["label"], "reference": ref["world"]}})
        if not ok_ref:
            r.count(r.probes, "reference_run_did_not_finish")
        if len(r.samples) < 4:
            r.samples.append({"scenario": {k: v for k, v in scns[i]["kwargs"].items()
                                           if k not in ("flow_config", "training_config")},
                              "variants": [g["label"] for g in group],
                              "reference_digest": ref["run_digest"]})
    r.selftest["pairs"] = sum(1 for g in results if g["label"] == "again")
    r.selftest["equal"] = sum(1 for i, group in by_scn.items() for g in group
                              if g["label"] == "again"
                              and g["run_digest"] == [x for x in group if x["label"] == "reference"][0]["run_digest"])
    return r.finish(
        rule=("for each seeded scenario of both samplers (exactly rounded models) a reference run without a pool, "
              "then variants - each started from different interpreter-start entropy, so only the run seed (0 included) "
              "can make them agree - that must give the byte-identical digest of (nested samples, logZ, logZ error, posterior "
              "weights, insertion indices, evaluation count): same again in another forked process; fresh "
              "interpreter under another PYTHONHASHSEED; SimPool(k), k=1..4, each under seeded task schedules "
              "(shuffled/reversed completion order, random task-to-worker assignment); chunk sizes 1..larger than "
              "the batch; parallelise_prior; thorough: real fork pools via n_pool and user-supplied. A different "
              "sampler seed must change the digest. distinct = (sampler, model, variant kind); non-trivial = the "
              "variant finished."),
        assumptions=["only pools that announce their size (a size-less pool disables vectorisation by documented design)"],
    )


if __name__ == "__main__":
    runner.main(PROP, "exploration", body)
