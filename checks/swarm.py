"""Generic swarm driver shared by the exploration checks.

A check supplies: which samplers, which monitors, how many scenarios per tier,
the fault-plan generator, and which parent-side judges apply. Every scenario is
generated from VERIF_SEED; one world = one seeded scenario + one fault plan.
"""
import os
import sys

sys.path.insert(0, os.path.dirname(os.path.dirname(os.path.abspath(__file__))))

from sim import jobs as J  # noqa: E402
from sim import judges  # noqa: E402
from sim import rng as R  # noqa: E402
from sim import runner  # noqa: E402
from sim import scenarios as S  # noqa: E402
from sim import scenarios_ins as SI  # noqa: E402
from sim import world as W  # noqa: E402

BUDGET_STEPS = 1_500_000


def make_plan(r, n_cycles, kinds=("like", "like", "fs", "fs", "signal"), like_range=(2, 45), fs_range=(8, 120)):
    """Kill-and-resume plan with n_cycles kills (coordinates per incarnation)."""
    plan = []
    downtimes = []
    for inc in range(n_cycles):
        kind = r.choice(list(kinds))
        if kind == "like":
            lo, hi = like_range
            # later incarnations resume with work already done: smaller offsets
            k = r.randrange(lo, max(lo + 1, hi if inc == 0 else hi // 2))
            plan.append({"inc": inc, "kind": "kill_like", "call": k})
        elif kind == "fs":
            lo, hi = fs_range
            e = r.randrange(lo, hi) if inc == 0 else r.randrange(1, hi // 2)
            f = {"inc": inc, "kind": "kill_fs", "event": e, "prefix": None}
            if r.random() < 0.3:
                f["prefix"] = r.choice([0, 1, 100, 5000])
            plan.append(f)
        elif kind == "signal":
            # a termination signal at a seeded line event (the handler nessai registered runs there)
            plan.append({"inc": inc, "kind": "signal", "signum": r.choice([15, 15, 2, 14]),
                         "line_event": r.randrange(800, 60000) if inc == 0 else r.randrange(800, 20000)})
        elif kind == "stall":
            plan.append({"inc": inc, "kind": "stall", "call": r.randrange(3, 80), "dt": r.choice([1.0, 30.0, 700.0])})
        downtimes.append(r.choice([1.0, 60.0, 3600.0, 1e5]))
    return plan, downtimes


def build_world(seed, n, sampler, monitors, r, p_fault=0.5, max_cycles=3, stalls=True, extra=None):
    scn = S.ns_scenario(seed, n) if sampler == "ns" else SI.ins_scenario(seed, n)
    plan, downtimes = [], []
    if r.random() < p_fault:
        if sampler == "ins":
            # an INS run makes only a few (large) likelihood calls and few fs events per level
            plan, downtimes = make_plan(r, r.randrange(1, max_cycles + 1), like_range=(2, 16), fs_range=(8, 60))
        else:
            plan, downtimes = make_plan(r, r.randrange(1, max_cycles + 1))
    if stalls and r.random() < 0.3:
        plan.append({"inc": 0, "kind": "stall", "call": r.randrange(3, 120), "dt": r.choice([5.0, 100.0, 1000.0])})
    w = {
        "seed": R.derive(seed, "world", n),
        "scenario": scn,
        "monitors": list(monitors),
        "plan": plan,
        "downtimes": downtimes,
        "max_incarnations": len([f for f in plan if f["kind"].startswith("kill") or f["kind"].startswith("signal")]) + 2,
        "budget_steps": BUDGET_STEPS,
    }
    if extra:
        w.update(extra)
    return w


def scenario_signature(world, res):
    k = world["scenario"]["kwargs"]
    s = world["scenario"]["sampler"]
    if s == "ns":
        fc = k.get("flow_config", {})
        rep = k.get("reparameterisations")
        repk = "none" if rep is None else "+".join(sorted(str(v) if not isinstance(v, dict) else a
                                                          for a, v in rep.items()))
        sig = (s, world["scenario"]["model"]["name"], k.get("flow_proposal_class", "FlowProposal"),
               k.get("latent_prior"), repk, fc.get("ftype"), bool(k.get("maximum_uninformed", True)),
               "pool" if world["scenario"].get("pool") else "nopool")
    else:
        sig = (s, world["scenario"]["model"]["name"], k.get("reparameterisation", "logit"),
               bool(k.get("strict_threshold")), bool(k.get("replace_all")), bool(k.get("draw_constant", True)),
               bool(k.get("draw_iid_live", True)), bool(k.get("save_log_q")), k.get("threshold_method"),
               k.get("flow_config", {}).get("ftype"), "pool" if world["scenario"].get("pool") else "nopool")
    fired = tuple(sorted(kk for kk, v in res["faults"].items() if v))
    return "|".join(str(x) for x in sig) + "||" + ",".join(fired) + f"||inc{len(res['exits'])}"


JUDGES = {
    "resume_eq": lambda w, o, prop: judges.judge_resume_eq(w, o, prop),
    "accounting": lambda w, o, prop: judges.judge_accounting(w, o, prop),
    "completion": lambda w, o, prop: (judges.judge_completion(w, o, prop), {}),
    "idempotent": lambda w, o, prop: judges.judge_idempotent(w, o, prop),
}


def swarm_job(job):
    world = job["world"]
    out = W.run_world(world)
    res = J.summarise(world, out)
    prop = job["prop"]
    keep = job.get("oracles")  # prefixes of child-side oracles this property owns
    if keep is not None:
        res["violations"] = [v for v in res["violations"] if any(v["oracle"].startswith(p) for p in keep)]
    for name in job.get("judges", []):
        v, info = JUDGES[name](world, out, prop)
        res["violations"] += v
        for k, n in (info or {}).items():
            if isinstance(n, (int, float)) and n:
                res["probes"][f"{name}_{k}"] = res["probes"].get(f"{name}_{k}", 0) + n
    # an exception whose innermost nessai frame is one of the functions this property is about is a violation of
    # the property (e.g. the replace step itself failing), not just an aborted run
    sites = job.get("abort_sites")
    if sites and res["exits"][-1] == 70:
        ex = [r for r in out["records"] if r["k"] == "exception"]
        site = (ex[-1].get("site") or "") if ex else ""
        if any(s_ in site for s_ in sites):
            res["violations"].append({"oracle": f"{prop}-step-raised", "key": f"{prop}-step-raised|{ex[-1]['type']}@{site}",
                                      "detail": {"exception": ex[-1]["type"], "msg": ex[-1]["msg"][:300], "site": site,
                                                 "phase": ex[-1].get("phase"), "tb": ex[-1]["tb"][-700:]},
                                      "world": world})
    if res["exits"][-1] == 72:
        res["probes"]["inconclusive_step_budget"] = 1
    sig = scenario_signature(world, res)
    res["signatures"] = [sig]
    nontrivial = bool(res["finished"] or res["violations"])
    if job.get("need_fault"):
        fired = [k for k, v in res["faults"].items() if v and k not in ("downtime_jump",)]
        nontrivial = nontrivial and bool(fired)
    res["nontrivial"] = [sig] if nontrivial else []
    its = [r for r in out["records"] if r["k"] == "it"]
    res["probes"]["iterations_monitored"] = len(its)
    rr = [r for r in out["records"] if r["k"] == "result"]
    res["sample"] = {
        "scenario": {"sampler": world["scenario"]["sampler"], "model": world["scenario"]["model"],
                     "kwargs": {k: v for k, v in world["scenario"]["kwargs"].items()
                                if k not in ("flow_config", "training_config")}},
        "plan": world["plan"], "exits": res["exits"],
        "result": ({k: rr[-1][k] for k in ("logZ", "err", "n", "iteration")} if rr else None),
    }
    res["job_tag"] = job.get("tag")
    return res


def run_swarm(r, prop, worlds, judges_=(), oracles=None, need_fault=False, label="swarm", abort_sites=None):
    jobs = [{"world": w, "prop": prop, "judges": list(judges_), "oracles": oracles, "need_fault": need_fault,
             "abort_sites": abort_sites}
            for w in worlds]
    # determinism self-test on the first two worlds
    st = jobs[:2]
    a = r.map(swarm_job, st, "selftest-a")
    b = r.map(swarm_job, st, "selftest-b")
    for x, y in zip(a, b):
        r.selftest["pairs"] += 1
        r.selftest["equal"] += int(x["digest"] == y["digest"])
    if r.selftest["pairs"] != r.selftest["equal"]:
        raise runner.Harness("determinism self-test failed: same world, different event log")
    results = r.map(swarm_job, jobs, label)
    for res in results:
        r.absorb(res)
    # a check whose workload collapses cannot decide anything: say so instead of reporting success
    fin = sum(1 for res in results if res.get("finished"))
    if results and not r.violations and fin < max(2, 0.25 * len(results)):
        reasons = {}
        for res in results:
            for a in res.get("aborted", []):
                k = f"{a.get('type')}: {str(a.get('msg'))[:120]}"
                reasons[k] = reasons.get(k, 0) + 1
        top = sorted(reasons.items(), key=lambda kv: -kv[1])[:3]
        raise runner.Harness(f"workload collapsed: only {fin} of {len(results)} simulated runs finished; "
                             f"most frequent abort reasons: {top}")
    return results


def replay_world(r, prop, judges_=(), oracles=None, abort_sites=None):
    import json

    with open(r.replay) as f:
        rep = json.load(f)
    res = swarm_job({"world": rep["world"], "prop": prop, "judges": list(judges_), "oracles": oracles,
                     "abort_sites": abort_sites})
    r.absorb(res)
    return r.finish("replay of one recorded world")


# ----------------------------------------------------------------------------
ESSENTIAL = {"nlive", "seed", "plot", "flow_config", "training_config", "min_samples", "max_iteration"}


def _drop_fault(world, i):
    import copy

    w = copy.deepcopy(world)
    f = w["plan"].pop(i)
    if f["kind"].startswith("kill") or f["kind"].startswith("signal"):
        for g in w["plan"]:
            if g.get("inc", 0) > f.get("inc", 0):
                g["inc"] -= 1
        if w.get("downtimes"):
            w["downtimes"] = w["downtimes"][:-1]
    return w


def make_minimiser(prop, judges_=(), oracles=None, max_runs=40, abort_sites=None):
    """Delta-debugging over the fault plan, then a simplification pass over the
    scenario knobs; every candidate is re-executed and kept only if the same
    violation key persists."""
    import copy

    def keys_of(world):
        res = swarm_job({"world": world, "prop": prop, "judges": list(judges_), "oracles": oracles,
                         "abort_sites": abort_sites})
        return {(v.get("key") or v["oracle"]) for v in res["violations"]}, res.get("digest")

    def minimise(v):
        if not v.get("world") or "scenario" not in v["world"]:
            return None
        key = v["key"]
        world = copy.deepcopy(v["world"])
        runs = 1
        ks, dig = keys_of(world)
        if key not in ks:
            return {"replay_confirmed": False}
        changed = True
        while changed and runs < max_runs:
            changed = False
            for i in range(len(world.get("plan", []))):
                w2 = _drop_fault(world, i)
                runs += 1
                ks2, d2 = keys_of(w2)
                if key in ks2:
                    world, dig, changed = w2, d2, True
                    break
        kw = world["scenario"]["kwargs"]
        for k in sorted(kw):
            if k in ESSENTIAL or runs >= max_runs:
                continue
            w2 = copy.deepcopy(world)
            del w2["scenario"]["kwargs"][k]
            runs += 1
            ks2, d2 = keys_of(w2)
            if key in ks2:
                world, dig = w2, d2
        if world["scenario"].get("pool") and runs < max_runs:
            w2 = copy.deepcopy(world)
            w2["scenario"].pop("pool")
            runs += 1
            ks2, d2 = keys_of(w2)
            if key in ks2:
                world, dig = w2, d2
        # the minimised file must reproduce in a fresh execution
        ks3, d3 = keys_of(world)
        return {"world": world, "digest": d3, "minimise_runs": runs + 1, "replay_confirmed": key in ks3 and d3 == dig}

    return minimise
