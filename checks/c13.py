"""C13 — a termination signal at any instant leaves a consistent, resumable state.

Fault enumeration over line events: a recording pass traces every 'line' event
in nessai/ files during run(); the handler nessai registered is then invoked
before chosen events (every event of ordinary iterations, finalise and
checkpoint windows; first/second/last + a seeded sample of each distinct source
line inside training/population windows), and the run is resumed in a fresh
process (DESIGN.md 5.13).
"""
import hashlib
import json
import os
import sys

sys.path.insert(0, os.path.dirname(os.path.abspath(__file__)))
sys.path.insert(0, os.path.dirname(os.path.dirname(os.path.abspath(__file__))))

from sim import jobs as J  # noqa: E402
from sim import rng as R  # noqa: E402
from sim import runner  # noqa: E402
from sim import scenarios as S  # noqa: E402
from sim import scenarios_ins as SI  # noqa: E402
from sim import world as W  # noqa: E402
SIGNAL_EXIT = 77  # exit_code given to FlowSampler in every scenario (sim.incarnation.SIGNAL_EXIT)

PROP = "C13"
SIGS = {"SIGTERM": 15, "SIGINT": 2, "SIGALRM": 14}


def matrix(seed, tier):
    out = [
        ("ns", S.simple_ns(seed, 0, nlive=20, maximum_uninformed=10, checkpoint_interval=7,
                           training_config=dict(max_epochs=2, patience=2))),
        ("ins", SI.simple_ins(seed, 1, nlive=40, min_samples=10, max_iteration=3,
                              training_config=dict(max_epochs=2, patience=2))),
    ]
    if tier == "thorough":
        out += [
            ("ns-time", S.simple_ns(seed, 2, nlive=20, maximum_uninformed=10, checkpoint_on_iteration=False,
                                    checkpoint_interval=0.3, training_config=dict(max_epochs=2, patience=2))),
            ("ns-ontrain", S.simple_ns(seed, 3, nlive=20, maximum_uninformed=5, checkpoint_on_training=True,
                                       checkpoint_interval=1000, cooldown=5, training_frequency=10,
                                       training_config=dict(max_epochs=2, patience=2))),
            ("ns-analytic", dict(S.simple_ns(seed, 4, nlive=15, analytic_priors=True, checkpoint_interval=5,
                                             training_config=dict(max_epochs=2, patience=2)),
                                 model={"name": "gauss_analytic", "dims": 2})),
            ("ins-noiid", SI.simple_ins(seed, 5, nlive=40, min_samples=10, max_iteration=3, draw_iid_live=False,
                                        save_existing_checkpoint=True,
                                        training_config=dict(max_epochs=2, patience=2))),
        ]
    return out


OPCODE_FUNCS = ["NestedSampler.consume_sample", "NestedSampler.insert_live_point", "NestedSampler.finalise",
                "BaseNestedSampler._critical_section", "_NSIntegralState.increment", "NestedSampler.yield_sample",
                "FlowSampler.safe_exit"]


def base_world(seed, scn, opcodes=False):
    w = {"seed": seed, "scenario": scn, "monitors": [scn["sampler"], "res"], "plan": [],
         "max_incarnations": 3, "budget_steps": 20_000_000}
    if opcodes and scn["sampler"] == "ns":
        # thorough deepening: pre-emption at every bytecode of the replace step (older interpreters deliver
        # signals on almost every instruction)
        w["opcode_funcs"] = OPCODE_FUNCS
    return w


def record_job(job):
    world = dict(job["world"], record_lines={"compact": True, "windows": []})
    out = W.run_world(world, keep=True)
    res = J.summarise(world, out)
    res["name"] = job["name"]
    res["dir"] = out["dir"]
    tr = os.path.join(out["dir"], "lab", "trace_i0.json")
    with open(tr) as f:
        res["trace"] = json.load(f)
    import shutil

    shutil.rmtree(out["dir"], ignore_errors=True)
    return res


def choose_sites(name, trace, tier, r, sampler):
    """Return list of (event, class) to inject at."""
    sites = trace["sites"]
    evs = trace["ev_sites"]
    marks = trace["marks"]
    n = len(evs)
    # segment boundaries from marks: [(start_ev, iteration, phase)]
    segs = []
    for k, (ev, it, ph) in enumerate(marks):
        end = marks[k + 1][0] - 1 if k + 1 < len(marks) else n
        segs.append((ev, end, it, ph))
    # classify iterations: heavy if any segment of that iteration has populate/train phase
    heavy_it = set()
    for (a, b, it, ph) in segs:
        if "populate" in ph or "train" in ph:
            heavy_it.add(it)
    by_it = {}
    for s in segs:
        by_it.setdefault(s[2], []).append(s)
    its = sorted(k for k in by_it if k >= 0)
    chosen = []

    def add_all(seglist, cls):
        for (a, b, it, ph) in seglist:
            for e in range(a, b + 1):
                chosen.append((e, f"{cls}:{ph}"))

    def add_sampled(seglist, cls, per_site_extra):
        occ = {}
        for (a, b, it, ph) in seglist:
            for e in range(a, b + 1):
                occ.setdefault((evs[e - 1], ph), []).append(e)
        for (sid, ph), es in occ.items():
            if per_site_extra < 0:
                pick = {es[0]} if per_site_extra == -2 else {es[0], es[-1]}
            else:
                pick = {es[0], es[-1]}
                if len(es) > 1:
                    pick.add(es[1])
                extra = [e for e in es if e not in pick]
                r.shuffle(extra)
                pick.update(extra[:per_site_extra])
            for e in sorted(pick):
                chosen.append((e, f"{cls}:{ph}"))

    if not its:
        return []
    # windows in which a flag and the data it describes are briefly out of step (both tiers, every occurrence):
    # the lines of initialise_history, and the lines of a proposal's draw() that run right after the last sample
    # of its pool was handed out (the reset of `populated` only executes then)
    hist_sids = {i for i, s_ in enumerate(sites) if s_["qual"].endswith("initialise_history")}
    reset_sids = {i for i, s_ in enumerate(sites)
                  if s_["qual"].endswith(".draw") and s_["text"] == "self.populated = False"}
    for e in range(1, n + 1):
        sid = evs[e - 1]
        if sid in hist_sids:
            chosen.append((e, "window:history"))
        elif sid in reset_sids:
            for d in (2, 1, 0):
                if e - d >= 1:
                    chosen.append((e - d, "window:pool-exhausted"))
    light = [i for i in its if i not in heavy_it]
    heavy = [i for i in its if i in heavy_it]
    fin = [s for s in segs if s[3].startswith("finalise")]
    post = [s for s in segs if s[3] == "post"]
    ck = [s for s in segs if s[3].endswith("/ckpt")]
    # the iteration in which the stopping condition is met (the last one before finalise) is special: the
    # loop guard must still let an interrupted replacement complete
    last_it = [i for i in its if any(s_[3].startswith("consume") for s_ in by_it[i])][-1:]
    for i in last_it:
        add_all([s_ for s_ in by_it[i] if s_[3].startswith("consume") or s_[3] == "loop"], "last-iter")
    if tier == "quick":
        for i in sorted(set(light[:1] + light[len(light) // 2: len(light) // 2 + 1])):
            add_all(by_it[i], "iter")
        for i in sorted(set(heavy[len(heavy) // 2: len(heavy) // 2 + 1])):
            add_sampled(by_it[i], "heavy", -2)
        add_sampled(fin, "window", -2)
        add_sampled(ck[len(ck) // 2: len(ck) // 2 + 1], "window", -2)
    else:
        want_light = sorted(set(light[:2] + light[len(light) // 3: len(light) // 3 + 2]
                                + light[2 * len(light) // 3: 2 * len(light) // 3 + 1] + light[-2:]))
        for i in want_light:
            add_all(by_it[i], "iter")
        want_heavy = sorted(set(heavy[:2] + heavy[len(heavy) // 2: len(heavy) // 2 + 1] + heavy[-1:]))
        for i in want_heavy:
            add_sampled(by_it[i], "heavy", 2)
        add_all(fin, "window")
        add_sampled(post, "post", 0)
        for s_ in (ck[:1] + ck[len(ck) // 2: len(ck) // 2 + 1] + ck[-1:]):
            add_all([s_], "window")
    seen = set()
    out = []
    for e, cls in chosen:
        if e not in seen and 1 <= e <= n:
            seen.add(e)
            out.append((e, cls))
    return out


def judge(world, out, site_rec):
    recs = out["records"]
    incs = out["incarnations"]
    viol = []
    sampler = world["scenario"]["sampler"]
    sig = [r for r in recs if r["k"] == "signal"]
    if not sig:
        return viol, {"harness_error": {"what": "planned signal did not fire", "world": world,
                                        "exits": [i["exit"] for i in incs]}}
    s = sig[0]
    site = s["site"]
    skey = f"{site['qual']} | {site['text']}"
    ph = s.get("phase")

    def v(oracle, detail):
        viol.append({"oracle": oracle, "key": f"{oracle}|{skey}",
                     "detail": dict(detail, site=skey, line=site["line"], file=site["file"], phase=ph,
                                    iteration=s.get("iteration"), signum=s["signum"], stack=s.get("stack", [])[:6]),
                     "world": world})

    e0 = incs[0]["exit"]
    if e0 != SIGNAL_EXIT:
        ex = [r for r in recs if r["k"] == "exception" and r["i"] == 0]
        v("C13-exit-code", {"what": "handler did not exit with the configured exit code", "exit": e0,
                            "exception": ex[-1]["type"] if ex else None,
                            "msg": ex[-1]["msg"][:200] if ex else None,
                            "tb": ex[-1]["tb"][-600:] if ex else None})
        return viol, {}
    if sampler == "ins":
        # last iteration-boundary checkpoint must be left byte-identical
        done = [r for r in recs if r["k"] == "ckpt_done" and r["i"] == 0 and r["n"] < s["n"]]
        disk = os.path.join(out["dir"], "disk") if out.get("dir") else None
        want = done[-1]["sha"] if done else None
        got = site_rec.get("resume_sha")
        got_old = site_rec.get("resume_old_sha")
        # a signal that lands inside the write of the next boundary checkpoint may leave the last completed one
        # under its `.old` name (save_existing_checkpoint=True: moved aside, new file not yet renamed), from where
        # the resume loads it; what must never happen is that its bytes are gone or altered
        begun = [r for r in recs if r["k"] == "ckpt_begin" and r["i"] == 0 and r["n"] < s["n"]]
        in_flight = len(begun) > len(done)
        intact = (want == got) or (in_flight and want is not None and want == got_old)
        if not intact:
            v("C13-ins-checkpoint-intact", {"what": "iteration-boundary checkpoint changed or vanished",
                                            "before": want, "after": got, "after_old": got_old,
                                            "checkpoint_in_flight": in_flight})
    if len(incs) < 2:
        return viol, {"harness_error": {"what": "no restart", "world": world}}
    last = incs[-1]
    if last["exit"] == 70:
        e = [r for r in recs if r["k"] == "exception"][-1]
        v("C13-resume-failed", {"what": "resumed run raised", "exception": e.get("type"),
                                "msg": e.get("msg", "")[:300], "rphase": e.get("phase"),
                                "tb": e.get("tb", "")[-700:]})
    elif last["exit"] == 72:
        v("C13-resume-failed", {"what": "resumed run exhausted its step budget"})
    for r in recs:
        if r["k"] == "violation" and r["i"] >= 1:
            v("C13-" + r["oracle"], dict(r.get("detail") or {}, rinc=r["i"]))
    return viol, {"site": skey, "phase": ph}


def signal_job(job):
    world = job["world"]
    out = W.run_world(world, keep=True)
    res = J.summarise(world, out)
    res["violations"] = []
    res["aborted"] = []
    site_rec = {}
    if out.get("dir"):
        name = world["scenario"]["kwargs"].get("resume_file", "nested_sampler_resume.pkl")
        # hash of the resume file as left by incarnation 0 cannot be read after the
        # resumed run rewrote it; it is recorded by the child of incarnation 1 at start
        st = [r for r in out["records"] if r["k"] == "start" and r["i"] == 1]
        if st:
            site_rec["resume_sha"] = st[0].get("resume_sha")
            site_rec["resume_old_sha"] = st[0].get("resume_old_sha")
    viol, info = judge(world, out, site_rec)
    import shutil

    if out.get("dir"):
        shutil.rmtree(out["dir"], ignore_errors=True)
    if info.get("harness_error"):
        res["harness_error"] = info["harness_error"]
    res["violations"] = viol
    sig = f"{job['name']}|{info.get('site')}|{info.get('phase')}"
    res["signatures"] = [sig]
    res["nontrivial"] = [sig]
    ph = info.get("phase") or ""
    for key, probe in (("populate", "signal_inside_populate"), ("train", "signal_inside_train"),
                       ("finalise", "signal_inside_finalise"), ("ckpt", "signal_inside_checkpoint"),
                       ("consume", "signal_inside_consume_sample")):
        if key in ph:
            res["probes"][probe] = 1
    if "insert_live_point" in (info.get("site") or ""):
        res["probes"]["signal_inside_insert_live_point"] = 1
    res["sample"] = {"scenario": job["name"], "signal": world["plan"][0], "site": info.get("site"),
                     "phase": ph, "exits": res["exits"]}
    return res


def body(r):
    seed, tier = r.seed, r.tier
    if r.replay:
        with open(r.replay) as f:
            rep = json.load(f)
        res = signal_job({"world": rep["world"], "name": "replay"})
        r.absorb(res)
        return r.finish("replay of one recorded signal site")
    mx = matrix(seed, tier)
    rec_jobs = [{"name": n, "world": base_world(seed, scn, opcodes=(tier == "thorough" and n == "ns"))} for n, scn in mx]
    recs = r.map(record_job, rec_jobs, "record")
    rr = R.stream(seed, "c13-sites")
    sjobs = []
    total_events = 0
    sigs = ["SIGTERM"] if tier == "quick" else ["SIGTERM", "SIGINT", "SIGALRM"]
    for rec, rj in zip(recs, rec_jobs):
        if rec.get("harness_error") or not rec["finished"]:
            raise runner.Harness(f"recording pass of {rec['name']} failed: {rec['exits']} {rec.get('aborted')}")
        r.runs += 1
        r.incarnations += 1
        r.sim_time += rec["sim_time"]
        total_events += len(rec["trace"]["ev_sites"])
        sites = choose_sites(rec["name"], rec["trace"], tier, rr, rj["world"]["scenario"]["sampler"])
        if tier == "quick":
            # cap each (window class, phase) group by a seeded sample so the quick tier stays quick
            groups = {}
            for e, cls in sites:
                groups.setdefault(cls, []).append(e)
            sites = []
            for cls in sorted(groups):
                es = groups[cls]
                cap = 150 if cls.startswith(("iter:consume", "iter:loop", "last-iter:consume")) else 70
                if len(es) > cap:
                    es = sorted(rr.sample(es, cap))
                sites += [(e, cls) for e in es]
            sites.sort()
        else:
            # thorough: every line of the replace step, of finalise and of the checkpoint windows; the long
            # stretches inside populate / train / post-processing (thousands of lines that all leave the same
            # sampler state behind) are sampled so that the whole tier finishes in well under an hour
            groups = {}
            for e, cls in sites:
                groups.setdefault(cls, []).append(e)
            sites = []
            for cls in sorted(groups):
                es = groups[cls]
                cap = 150 if cls.startswith("heavy:") else (100 if cls.startswith(("iter:post", "post")) else None)
                if cap is not None and len(es) > cap:
                    es = sorted(rr.sample(es, cap))
                sites += [(e, cls) for e in es]
            sites.sort()
        by_cls = {}
        for _, cls in sites:
            by_cls[cls.split(":")[0] + ":" + cls.split(":")[1].split("/")[-1]] = by_cls.get(cls.split(":")[0] + ":" + cls.split(":")[1].split("/")[-1], 0) + 1
        r.notes.append(f"{rec['name']}: {len(sites)} sites {by_cls}")
        for k, (ev, cls) in enumerate(sites):
            sname = sigs[k % len(sigs)] if tier == "thorough" else "SIGTERM"
            w = dict(rj["world"])
            w["plan"] = [{"inc": 0, "kind": "signal", "signum": SIGS[sname], "line_event": ev}]
            w["note_resume_sha"] = True
            sjobs.append({"name": rec["name"], "cls": cls, "world": w})
    n_ops = 0
    for rec, rj in zip(recs, rec_jobs):
        ops = rec["trace"].get("ops") or []
        if not ops:
            continue
        its = sorted({o[4] for o in ops if o[4] >= 0})
        want = set(its[:1] + its[-1:])
        for o in ops:
            # bytecodes without a source line are the clean-up code CPython runs when it closes the yield_sample
            # generator from a finaliser; an exception raised there is swallowed by the interpreter ("Exception
            # ignored in"), so no handler can exit from it: not an instant the property can speak about
            if o[4] in want and o[2] is not None:
                w = dict(rj["world"])
                w["plan"] = [{"inc": 0, "kind": "signal", "signum": 15, "opcode_event": o[0]}]
                w["note_resume_sha"] = True
                sjobs.append({"name": rec["name"], "cls": f"opcode:{o[1]}", "world": w})
                n_ops += 1
    st = sjobs[:2]
    a = r.map(signal_job, st, "selftest-a")
    b = r.map(signal_job, st, "selftest-b")
    for x, y in zip(a, b):
        r.selftest["pairs"] += 1
        r.selftest["equal"] += int(x["digest"] == y["digest"])
    if r.selftest["pairs"] != r.selftest["equal"]:
        raise runner.Harness("determinism self-test failed")
    for res in r.map(signal_job, sjobs, "signal"):
        r.absorb(res)
    return r.finish(
        rule=("fault enumeration over line events of nessai/ files during run(): every line event of selected "
              "ordinary iterations, of finalise and of checkpoint windows (incl. lines of __getstate__ called back "
              "by the pickler); inside training/population iterations every distinct source line at its first, "
              "second and last occurrence (thorough: plus a seeded sample), each such class capped at 150 sites per "
              "scenario - a stated reduction. At each site the "
              "handler nessai registered is invoked; the process must exit with the configured code and a fresh "
              "process must resume to a result passing NS-*/INS-* and RES-*; INS: the last iteration-boundary "
              "checkpoint must stay byte-identical. distinct = (scenario, qualname | source text, phase); all "
              "non-trivial (signal lands inside run())."),
        extra={"scenarios": [n for n, _ in mx], "sites_injected": len(sjobs), "line_events_recorded": total_events,
               "opcode_sites_injected": n_ops},
        exhaustive=False,
        assumptions=["line events are a superset of CPython 3.12's signal delivery points",
                     "one signal per run; handler not re-entered by a second signal"],
    )


if __name__ == "__main__":
    runner.main(PROP, "fault_enumeration", body)
