"""C19 — saved results read back equal to the in-memory results (real-run clause; DESIGN.md 5.19)."""
import os
import sys

sys.path.insert(0, os.path.dirname(os.path.abspath(__file__)))
sys.path.insert(0, os.path.dirname(os.path.dirname(os.path.abspath(__file__))))

import swarm  # noqa: E402
from sim import rng as R  # noqa: E402
from sim import runner  # noqa: E402

PROP = "C19"
ORACLES = ("C19-",)


def body(r):
    if r.replay:
        return swarm.replay_world(r, PROP, oracles=ORACLES)
    n_ns, n_ins = (70, 50) if r.tier == "quick" else (2000, 1500)
    rr = R.stream(r.seed, "c19-plans")
    worlds = []
    for i in range(n_ns + n_ins):
        sampler = "ns" if i < n_ns else "ins"
        w = swarm.build_world(r.seed, 120000 + i, sampler, ["files"], rr, p_fault=0.4, max_cycles=2)
        w["scenario"]["kwargs"]["result_extension"] = rr.choice(["hdf5", "h5", "json"])
        if rr.random() < 0.3:
            w["scenario"]["callback"] = True
        if sampler == "ns" and rr.random() < 0.3:
            w["scenario"]["class_objects"] = True
        if sampler == "ns" and rr.random() < 0.2:
            w["scenario"]["kwargs"]["max_iteration"] = rr.choice([15, 40])
        worlds.append(w)
    swarm.run_swarm(r, PROP, worlds, oracles=ORACLES)
    return r.finish(
        minimise=swarm.make_minimiser(PROP, (), ORACLES),
        rule=("seeded swarm of runs of both samplers ending in save_results with extension in {hdf5, h5, json}, "
              "including resumed runs (non-empty checkpoint_iterations), runs cut by the cap (final_p_value None), "
              "INS None entries, non-finite history values; constructor kwargs include non-serialisable values "
              "nessai accepts (pool object, checkpoint callback). At the end the result file is read back with "
              "h5py / json and compared field by field with get_result_dictionary() + posterior samples "
              "(NaN = NaN, '__none__' decoded, structured arrays by field); config.json must parse with the standard "
              "JSON reader. distinct = (config signature, faults, incarnations); non-trivial = run finished. "
              "Generated dictionaries of every value type are NOT decided here."),
        assumptions=["real-run clause only; generated dictionaries for the encoders are input generation, out of family"],
    )


if __name__ == "__main__":
    runner.main(PROP, "exploration", body)
