"""C05 — returned results are mutually consistent and faithful to the model (DESIGN.md 5.5)."""
import os
import sys

sys.path.insert(0, os.path.dirname(os.path.abspath(__file__)))
sys.path.insert(0, os.path.dirname(os.path.dirname(os.path.abspath(__file__))))

import swarm  # noqa: E402
from sim import rng as R  # noqa: E402
from sim import runner  # noqa: E402

PROP = "C05"
ORACLES = ("RES-",)


def body(r):
    if r.replay:
        return swarm.replay_world(r, PROP, oracles=ORACLES)
    n_ns, n_ins = (90, 50) if r.tier == "quick" else (2600, 1400)
    rr = R.stream(r.seed, "c05-plans")
    worlds = [swarm.build_world(r.seed, 20000 + i, "ns", ["res"], rr, p_fault=0.5, max_cycles=4) for i in range(n_ns)]
    worlds += [swarm.build_world(r.seed, 30000 + i, "ins", ["res"], rr, p_fault=0.5, max_cycles=4) for i in range(n_ins)]
    swarm.run_swarm(r, PROP, worlds, oracles=ORACLES)
    return r.finish(
        minimise=swarm.make_minimiser(PROP, (), ORACLES),
        rule=("seeded swarm of complete runs of both samplers, half with 1-4 kill-and-resume cycles, some cut by "
              "max_iteration; at the end of FlowSampler.run the result oracle recomputes evidence, error and "
              "posterior weights from the returned samples alone (independent reimplementation of the documented "
              "quadrature + nessai's one-pass compute_weights; INS: mean importance weight and its standard error), "
              "checks sample count, order, model values, birth likelihoods and result-dictionary consistency. "
              "distinct = (config signature, fault kinds fired, incarnations); non-trivial = run finished."),
        assumptions=["tiny flows", "exactly rounded zoo models so stored logL/logP can be compared bit for bit"],
    )


if __name__ == "__main__":
    runner.main(PROP, "exploration", body)
