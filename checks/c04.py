"""C04 — INS sample store stays sorted, partitioned and aligned under all updates (DESIGN.md 5.4).

Layer 1: store-level operation-and-restart histories against a list-based
reference model (Hypothesis stateful machine, one process per seed, the four
strict x replace_all modes). The fault is `restart`: pickle/unpickle in place;
with save_log_q false the density table comes back None and is re-derived from
a deterministic fake proposal, exactly as resume_from_pickled_sampler does.
Layer 2: the same INS-STORE invariants inside real simulated INS runs.
"""
import json
import os
import pickle
import sys

sys.path.insert(0, os.path.dirname(os.path.abspath(__file__)))
sys.path.insert(0, os.path.dirname(os.path.dirname(os.path.abspath(__file__))))

import numpy as np  # noqa: E402

import swarm  # noqa: E402
from sim import rng as R  # noqa: E402
from sim import runner  # noqa: E402

PROP = "C04"
ALPHABET = [0.0, 1.0, 2.0, 3.0, 4.0]
DT = np.dtype([("x", "f8"), ("logP", "f8"), ("logL", "f8"), ("it", "i4"), ("logW", "f8"), ("logQ", "f8"),
               ("logU", "f8")])


def q(uid, j):
    """Deterministic fake proposal density of sample uid under proposal j."""
    return -(((int(uid) * 31 + j * 17) % 97) / 7.0) - 0.25 * j


def rows(uids, ncols):
    return np.array([[q(u, j) for j in range(ncols)] for u in uids], dtype=float).reshape(len(uids), ncols)


class Violation(AssertionError):
    def __init__(self, oracle, detail):
        super().__init__(oracle)
        self.oracle = oracle
        self.detail = detail


def check_store(s, ref, ncols, where):
    """INS-STORE for the store-level machine. ref: dict uid -> [logL, live, it]."""
    x = s.samples
    n = len(x)

    def bad(oracle, **d):
        raise Violation(oracle, dict(d, where=where))

    if np.any(np.diff(x["logL"]) < 0):
        bad("C04-sorted", logL=x["logL"].tolist())
    li = np.asarray(s.live_points_indices if s.live_points_indices is not None else [], dtype=int)
    di = np.asarray(s.nested_samples_indices, dtype=int)
    if li.size and np.any(np.diff(li) <= 0):
        bad("C04-live-indices", live=li.tolist())
    if di.size and np.any(np.diff(di) <= 0):
        bad("C04-dead-indices", dead=di.tolist())
    both = np.concatenate([li, di])
    if both.size != n or not np.array_equal(np.sort(both), np.arange(n)):
        bad("C04-partition", n=n, live=li.tolist(), dead=di.tolist())
    uids = [int(v) for v in x["x"]]
    if sorted(uids) != sorted(ref):
        bad("C04-conservation", have=sorted(uids), want=sorted(ref))
    for i, u in enumerate(uids):
        if float(x["logL"][i]) != ref[u][0] or int(x["it"][i]) != ref[u][2]:
            bad("C04-conservation", what="sample modified", uid=u)
    if s.log_q is None or s.log_q.shape != (n, ncols):
        bad("C04-logq-shape", shape=None if s.log_q is None else list(s.log_q.shape), n=n, ncols=ncols)
    want = rows(uids, ncols)
    if not np.array_equal(s.log_q, want):
        i = int(np.argwhere(s.log_q != want)[0][0])
        bad("C04-logq-alignment", row=i, uid=uids[i], stored=s.log_q[i].tolist(), want=want[i].tolist())
    live_u = sorted(uids[i] for i in li)
    want_live = sorted(u for u, v in ref.items() if v[1])
    if live_u != want_live:
        bad("C04-live-set", live=live_u, want=want_live, threshold=s.log_likelihood_threshold)


def machine_job(job):
    import hypothesis
    from hypothesis import settings
    from hypothesis import strategies as st
    from hypothesis.stateful import RuleBasedStateMachine, precondition, rule, run_state_machine_as_test

    from nessai.samplers.importancesampler import OrderedSamples

    strict, replace_all, save_log_q = job["strict"], job["replace_all"], job["save_log_q"]
    seed = job["seed"]
    stats = {"examples": 0, "steps": 0, "restarts": 0, "ties": 0, "above_all_live": 0, "histories": set()}
    last = {}

    batch = st.lists(st.sampled_from(ALPHABET), min_size=1, max_size=6)
    thr = st.sampled_from([-0.5] + ALPHABET + [0.5, 1.5, 2.5, 3.5, 4.5])

    class Machine(RuleBasedStateMachine):
        def __init__(self):
            super().__init__()
            self.s = OrderedSamples(strict_threshold=strict, replace_all=replace_all, save_log_q=save_log_q)
            self.ref = {}
            self.ncols = 1
            self.next_uid = 1
            self.finalised = False
            self.ops = []
            self.level = -1

        def _mk(self, logls):
            n = len(logls)
            a = np.zeros(n, dtype=DT)
            uids = list(range(self.next_uid, self.next_uid + n))
            self.next_uid += n
            a["x"] = uids
            a["logL"] = logls
            a["it"] = self.level
            a["logW"] = -1.0
            return a, uids

        def _after(self, name):
            stats["steps"] += 1
            check_store(self.s, self.ref, self.ncols, name)

        @precondition(lambda self: self.s.samples is None)
        @rule(b=batch)
        def add_initial(self, b):
            self.ops.append(["add_initial", b])
            a, uids = self._mk(b)
            self.s.add_initial_samples(a, rows(uids, 1))
            for u, l in zip(uids, b):
                self.ref[u] = [float(l), True, self.level]
            if len(set(b)) < len(b):
                stats["ties"] += 1
            self._after("add_initial")

        @precondition(lambda self: self.s.samples is not None and not self.finalised)
        @rule(v=thr)
        def set_threshold(self, v):
            self.ops.append(["set_threshold", v])
            self.s.update_log_likelihood_threshold(v)
            self._after("set_threshold")

        @precondition(lambda self: self.s.samples is not None and not self.finalised
                      and self.s.log_likelihood_threshold is not None and self.s.live_points_indices is not None)
        @rule()
        def remove(self):
            self.ops.append(["remove"])
            t = self.s.log_likelihood_threshold
            live = [u for u, v in self.ref.items() if v[1]]
            below = [u for u in live if self.ref[u][0] < t]
            if live and len(below) == len(live):
                stats["above_all_live"] += 1
            n = self.s.remove_samples()
            gone = live if replace_all else below
            for u in gone:
                self.ref[u][1] = False
            if int(n) != len(gone):
                raise Violation("C04-removed-count", {"reported": int(n), "expected": len(gone), "threshold": t,
                                                      "live_logL": sorted(self.ref[u][0] for u in live)})
            self._after("remove")

        @precondition(lambda self: self.s.samples is not None and not self.finalised
                      and (not strict or self.s.log_likelihood_threshold is not None))
        @rule(b=batch)
        def append_column_and_add(self, b):
            self.ops.append(["append_column_and_add", b])
            # what add_and_update_points does: new density column for all rows, then insert a batch that has it
            self.level += 1
            self.ncols += 1
            uids_old = [int(v) for v in self.s.samples["x"]]
            col = np.array([[q(u, self.ncols - 1)] for u in uids_old]).reshape(len(uids_old), 1)
            self.s.log_q = np.concatenate([self.s.log_q, col], axis=1)
            a, uids = self._mk(b)
            self.s.add_samples(a, rows(uids, self.ncols))
            for u, l in zip(uids, b):
                self.ref[u] = [float(l), True, self.level]
            if strict:
                t = self.s.log_likelihood_threshold
                for u, v in self.ref.items():
                    v[1] = v[0] >= t
            if len(set(b) | {v[0] for v in self.ref.values()}) < len(self.ref):
                stats["ties"] += 1
            self._after("append_column_and_add")

        @precondition(lambda self: self.s.samples is not None and not self.finalised)
        @rule()
        def update_evidence(self):
            self.ops.append(["update_evidence"])
            self.s.update_evidence()
            self._after("update_evidence")

        @precondition(lambda self: self.s.samples is not None and not self.finalised
                      and self.s.live_points_indices is not None)
        @rule()
        def finalise(self):
            self.ops.append(["finalise"])
            self.s.finalise()
            for v in self.ref.values():
                v[1] = False
            self.finalised = True
            self._after("finalise")

        @precondition(lambda self: self.s.samples is not None)
        @rule()
        def restart(self):
            """The fault: the process dies and the store is restored from its pickle."""
            self.ops.append(["restart"])
            stats["restarts"] += 1
            self.s = pickle.loads(pickle.dumps(self.s))
            if self.s.log_q is None:
                uids = [int(v) for v in self.s.samples["x"]]
                self.s.log_q = rows(uids, self.ncols)
            elif not save_log_q:
                raise Violation("C04-restart", {"what": "log_q pickled although save_log_q is false"})
            self._after("restart")

        def teardown(self):
            stats["examples"] += 1
            last["ops"] = self.ops
            stats["histories"].add(json.dumps([o[0] for o in self.ops]))

    M = hypothesis.seed(seed)(Machine)
    viol = []
    try:
        run_state_machine_as_test(M, settings=settings(max_examples=job["examples"], stateful_step_count=job["steps"],
                                                       database=None, deadline=None, report_multiple_bugs=False,
                                                       suppress_health_check=list(hypothesis.HealthCheck)))
    except Violation as e:
        viol.append({"oracle": e.oracle, "key": f"{e.oracle}|strict={strict}|replace_all={replace_all}",
                     "detail": dict(e.detail, ops=last.get("ops"), seed=seed),
                     "world": {"machine": job, "ops": last.get("ops")}})
    except Exception as e:  # an exception inside a store method is a violation of the history property too
        import traceback

        viol.append({"oracle": "C04-exception", "key": f"C04-exception|{type(e).__name__}|strict={strict}|replace_all={replace_all}",
                     "detail": {"error": repr(e)[:300], "tb": traceback.format_exc()[-800:], "ops": last.get("ops"),
                                "seed": seed},
                     "world": {"machine": job, "ops": last.get("ops")}})
    hs = sorted(stats["histories"])
    return {"evaluations": stats["examples"], "runs": stats["examples"], "incarnations": 0, "violations": viol,
            "signatures": [f"{strict}|{replace_all}|{h}" for h in hs],
            "nontrivial": [f"{strict}|{replace_all}|{h}" for h in hs if "restart" in h or "remove" in h],
            "faults": {"store_restart_drop_log_q": stats["restarts"]},
            "probes": {"store_machine_steps": stats["steps"], "store_ties": stats["ties"],
                       "store_threshold_above_all_live": stats["above_all_live"]},
            "sample": {"mode": {"strict": strict, "replace_all": replace_all, "save_log_q": save_log_q},
                       "ops": last.get("ops", [])[:14]},
            "aborted": [], "sim_time": 0.0}


def body(r):
    seed, tier = r.seed, r.tier
    if r.replay:
        with open(r.replay) as f:
            rep = json.load(f)
        w = rep["world"]
        if "machine" in w:
            res = machine_job(dict(w["machine"], examples=max(400, w["machine"].get("examples", 400))))
            r.absorb(res)
            return r.finish("replay of a store-machine seed")
        return swarm.replay_world(r, PROP, oracles=("INS-STORE",))
    jobs = []
    ex = 250 if tier == "quick" else 12000
    k = 0
    for strict in (False, True):
        for replace_all in (False, True):
            for i in range(4):
                jobs.append({"seed": R.seed32(seed, "c04-machine", k), "strict": strict, "replace_all": replace_all,
                             "save_log_q": bool(i % 2), "examples": ex, "steps": 30})
                k += 1
    for res in r.map(machine_job, jobs, "store-machine"):
        r.absorb(res)
    # in-run layer
    n = 40 if tier == "quick" else 1200
    rr = R.stream(seed, "c04-plans")
    worlds = [swarm.build_world(seed, 130000 + i, "ins", ["ins"], rr, p_fault=0.5, max_cycles=2) for i in range(n)]
    swarm.run_swarm(r, PROP, worlds, oracles=("INS-STORE",), label="in-run")
    return r.finish(
        minimise=swarm.make_minimiser(PROP, (), ("INS-STORE",)),
        rule=("layer 1: Hypothesis stateful machine over OrderedSamples for each of the four strict x replace_all "
              "modes (16 seeds): rules add_initial, set_threshold (values below / equal / above the live range), "
              "remove, append_column_and_add, update_evidence, finalise and the fault `restart` (pickle round trip; "
              "density table dropped and re-derived when save_log_q is false); likelihoods from a 5-value alphabet so "
              "ties and boundary cases are frequent; after every rule the store is compared with a list reference "
              "model (sorted, index sets strictly increasing / disjoint / complete, every sample conserved and "
              "unmodified, each density row still attached to its sample, live set, reported removed count). "
              "layer 2: the same invariants after every iteration of real simulated INS runs incl. kill/resume. "
              "distinct = abstract operation sequences (+ run signatures); non-trivial = contains a restart or a "
              "removal (layer 1) / run finished (layer 2)."),
        assumptions=["sequential-history end of the family: no scheduler nondeterminism inside the store; the "
                     "history generator plays the environment and the only fault is the restart"],
    )


if __name__ == "__main__":
    runner.main(PROP, "exploration", body)
