"""C10 — batched, chunked and pooled evaluation equals pointwise evaluation, once (DESIGN.md 5.10).

System: Model.batch_evaluate_log_likelihood / _log_prior / _log_prior_unit_hypercube +
batch_evaluate_function driven through the simulated pool under seeded task
schedules. The small grid is enumerated exhaustively; schedules are sampled
under the seed (all permutations when there are <= 4 tasks); a Hypothesis
stateful machine drives call sequences on one model (counter accumulation, pool
close / reconfigure); real fork pools are a labelled subset of the thorough tier.
"""
import itertools
import json
import os
import sys

sys.path.insert(0, os.path.dirname(os.path.abspath(__file__)))
sys.path.insert(0, os.path.dirname(os.path.dirname(os.path.abspath(__file__))))

import numpy as np  # noqa: E402

from sim import rng as R  # noqa: E402
from sim import runner  # noqa: E402

PROP = "C10"
MODELS = [
    ("vectorised", {"name": "gauss", "dims": 2}, {}),
    ("vectorised-nonuniform", {"name": "gauss_nonuniform", "dims": 2}, {}),
    ("not-allowed-vectorised", {"name": "gauss", "dims": 3}, {"allow_vectorised": False, "allow_vectorised_prior": False}),
    ("scalar-returning", {"name": "gauss_scalar", "dims": 2}, {}),
    ("length1-array-returning", {"name": "gauss_array1", "dims": 2}, {}),
    ("pointwise-prior-vectorised-likelihood", {"name": "gauss_scalar_prior", "dims": 2}, {}),
]


class FixedSchedulePool:
    """SimPool with an explicit completion order (for exhaustive small cases)."""

    def __init__(self, k, perm_index=None, seed=0):
        from sim.pool import SimPool

        self.inner = SimPool(k, sched_seed=seed)
        self._processes = k
        self.perm_index = perm_index
        self.orders = []

    def map(self, func, iterable, chunksize=None):
        tasks = list(iterable)
        n = len(tasks)
        if self.perm_index is not None and n <= 4:
            perms = list(itertools.permutations(range(n)))
            order = list(perms[self.perm_index % len(perms)])
        else:
            order = list(range(n))
            self.inner.rng.shuffle(order)
        self.orders.append(order)
        results = [None] * n
        for i in order:
            results[i] = func(tasks[i])
        return results

    def close(self):
        pass

    def terminate(self):
        pass

    def join(self):
        pass


def make_points(model, n, rs, unit):
    from nessai.livepoint import numpy_array_to_live_points

    d = len(model.names)
    if unit:
        u = rs.random_sample((n, d))
        return numpy_array_to_live_points(u, model.names)
    lo = np.array([model.bounds[k][0] for k in model.names])
    hi = np.array([model.bounds[k][1] for k in model.names])
    return numpy_array_to_live_points(lo + (hi - lo) * rs.random_sample((n, d)), model.names)


def pointwise(model, x, which, unit):
    phys = model.from_unit_hypercube(x) if (unit and which != "lpu") else x
    out = []
    for i in range(len(x)):
        xi = phys[i:i + 1]
        if which == "ll":
            v = model.ref_log_likelihood(xi)
        elif which == "lp":
            v = model.log_prior(xi)
            v = np.asarray(v, dtype="float64").reshape(-1)[:1]
        else:
            v = model.log_prior_unit_hypercube(x[i:i + 1])
        out.append(np.asarray(v, dtype="float64").reshape(-1)[0])
    return np.array(out, dtype="float64"), phys


def sorted_rows(a, names):
    if len(a) == 0:
        return []
    rows = np.stack([np.asarray(a[n], dtype="float64").reshape(-1) for n in names], axis=-1)
    return sorted(rows.tolist())


def eval_cell(cell):
    """One grid cell: returns list of violation details (empty if ok)."""
    from nessai.utils.multiprocessing import initialise_pool_variables

    from sim.modelzoo import SEAM, build

    mname, mspec, attrs, N, chunk, k, perm, unit, seed = cell
    rs = np.random.RandomState(seed % (2 ** 32 - 1))
    model = build(mspec)
    for a, v in attrs.items():
        setattr(model, a, v)
    if chunk is not None:
        model.likelihood_chunksize = chunk
    pool = None
    if k:
        initialise_pool_variables(model)
        pool = FixedSchedulePool(k, perm_index=perm, seed=seed)
        model.configure_pool(pool=pool)
        model.parallelise_prior = bool(seed % 2)
    st = np.random.get_state()
    _ = model.vectorised_likelihood, model.vectorised_prior, model.vectorised_prior_unit_hypercube
    np.random.set_state(st)
    x = make_points(model, N, rs, unit)
    bad = []
    SEAM.check_support = False
    # likelihood
    c0 = model.likelihood_evaluations
    SEAM.record_args = []
    try:
        out = model.batch_evaluate_log_likelihood(x, unit_hypercube=unit)
    except Exception as e:  # noqa
        SEAM.record_args = None
        return [("C10-exception", {"where": "batch_evaluate_log_likelihood", "error": repr(e)[:200]})], ()
    args = SEAM.record_args
    SEAM.record_args = None
    ref, phys = pointwise(model, x, "ll", unit)
    if out.shape != (N,) or not np.array_equal(np.asarray(out, dtype="float64"), ref):
        bad.append(("C10-likelihood-values", {"got": np.atleast_1d(np.asarray(out)).reshape(-1).tolist()[:6], "want": ref.tolist()[:6]}))
    if model.likelihood_evaluations - c0 != N:
        bad.append(("C10-counter", {"delta": int(model.likelihood_evaluations - c0), "N": N}))
    seen = np.concatenate([np.atleast_1d(a) for a in args]) if args else phys[:0]
    if sorted_rows(seen, model.names) != sorted_rows(phys, model.names):
        bad.append(("C10-arguments", {"what": "the user's likelihood was not evaluated at exactly the "
                                      + ("mapped physical" if unit else "given") + " points, once each",
                                      "n_seen": int(len(seen)), "N": N}))
    # priors must not touch the counter
    c1 = model.likelihood_evaluations
    try:
        outp = model.batch_evaluate_log_prior(x, unit_hypercube=unit)
    except Exception as e:  # noqa
        return bad + [("C10-exception", {"where": "batch_evaluate_log_prior", "error": repr(e)[:200]})], ()
    refp, _ = pointwise(model, x, "lp", unit)
    if np.asarray(outp).shape != (N,) or not np.array_equal(np.asarray(outp, dtype="float64"), refp):
        bad.append(("C10-prior-values", {"got": np.atleast_1d(np.asarray(outp)).reshape(-1).tolist()[:6], "want": refp.tolist()[:6]}))
    if unit:
        try:
            outu = model.batch_evaluate_log_prior_unit_hypercube(x)
        except Exception as e:  # noqa
            return bad + [("C10-exception", {"where": "batch_evaluate_log_prior_unit_hypercube",
                                             "error": repr(e)[:200]})], ()
        refu, _ = pointwise(model, x, "lpu", unit)
        if np.asarray(outu).shape != (N,) or not np.array_equal(np.asarray(outu, dtype="float64"), refu):
            bad.append(("C10-prior-unit-values", {"got": np.atleast_1d(np.asarray(outu)).reshape(-1).tolist()[:6], "want": refu.tolist()[:6]}))
    if model.likelihood_evaluations != c1:
        bad.append(("C10-counter", {"what": "prior evaluation changed the likelihood counter"}))
    orders = tuple(tuple(o) for o in (pool.orders if pool else []))
    return bad, orders


def grid_job(job):
    cells = job["cells"]
    viol = []
    sigs = set()
    nontrivial = set()
    nonid = 0
    sample = None
    for cell in cells:
        bad, orders = eval_cell(tuple(cell))
        mname, mspec, attrs, N, chunk, k, perm, unit, seed = cell
        sig = f"{mname}|N{N}|chunk{chunk}|pool{k}|{'unit' if unit else 'phys'}|{hash(orders) & 0xffff:x}"
        sigs.add(sig)
        if N > 0:
            nontrivial.add(sig)
        if any(list(o) != sorted(o) for o in orders):
            nonid += 1
        for oracle, detail in bad:
            viol.append({"oracle": oracle, "key": f"{oracle}|{mname}|{'pool' if k else 'nopool'}|{'chunk' if chunk else 'nochunk'}",
                         "detail": dict(detail, cell=list(cell)), "world": {"cell": list(cell)}})
        if sample is None and k and N > 4:
            sample = {"cell": {"model": mname, "N": N, "chunk": chunk, "pool": k, "unit": unit},
                      "task_orders": [list(o) for o in orders][:3]}
    return {"evaluations": len(cells), "runs": len(cells), "incarnations": 0, "violations": viol,
            "signatures": sorted(sigs), "nontrivial": sorted(nontrivial),
            "faults": {"pool_reorder": nonid}, "probes": {}, "sample": sample, "aborted": [], "sim_time": 0.0}


def real_pool_job(job):
    """Thorough tier: real multiprocessing fork pools, in a forked child with a wall limit."""
    import multiprocessing

    from nessai.utils.multiprocessing import initialise_pool_variables

    from sim.modelzoo import SEAM, build

    mname, mspec, attrs, N, chunk, k, unit, seed, via = job["cell"]
    r, w = os.pipe()
    pid = os.fork()
    if pid == 0:
        try:
            os.close(r)
            rs = np.random.RandomState(seed % (2 ** 32 - 1))
            model = build(mspec)
            for a, v in attrs.items():
                setattr(model, a, v)
            if chunk is not None:
                model.likelihood_chunksize = chunk
            SEAM.check_support = False
            if via == "n_pool":
                model.configure_pool(n_pool=k)
            else:
                pool = multiprocessing.get_context("fork").Pool(k, initializer=initialise_pool_variables,
                                                                initargs=(model,))
                model.configure_pool(pool=pool)
            x = make_points(model, N, rs, unit)
            c0 = model.likelihood_evaluations
            out = model.batch_evaluate_log_likelihood(x, unit_hypercube=unit)
            ref, _ = pointwise(model, x, "ll", unit)
            bad = []
            if not np.array_equal(np.asarray(out, dtype="float64"), ref):
                bad.append("values")
            if model.likelihood_evaluations - c0 != N:
                bad.append("counter")
            outp = model.batch_evaluate_log_prior(x, unit_hypercube=unit)
            refp, _ = pointwise(model, x, "lp", unit)
            if not np.array_equal(np.asarray(outp, dtype="float64"), refp):
                bad.append("prior")
            model.close_pool()
            os.write(w, json.dumps(bad).encode())
        except BaseException as e:  # noqa
            os.write(w, json.dumps(["exception:" + repr(e)[:200]]).encode())
        finally:
            os._exit(0)
    os.close(w)
    from sim.world import _wait

    status = _wait(pid, 120)
    data = b""
    while True:
        chunkb = os.read(r, 65536)
        if not chunkb:
            break
        data += chunkb
    os.close(r)
    res = {"evaluations": 1, "runs": 1, "incarnations": 1, "violations": [], "faults": {"real_fork_pool": 1},
           "probes": {}, "aborted": [], "sim_time": 0.0,
           "signatures": [f"real|{mname}|N{N}|chunk{chunk}|pool{k}|{via}"],
           "nontrivial": [f"real|{mname}|N{N}|chunk{chunk}|pool{k}|{via}"] if N else []}
    if status is None or not data:
        res["harness_error"] = {"what": "real pool case hung or died", "cell": job["cell"]}
        return res
    bad = json.loads(data.decode())
    for b in bad:
        res["violations"].append({"oracle": "C10-real-pool-" + b.split(":")[0], "key": f"C10-real-pool|{b.split(':')[0]}|{via}",
                                  "detail": {"what": b, "cell": job["cell"]}, "world": {"real_cell": job["cell"]}})
    return res


def machine_job(job):
    """Hypothesis stateful machine: sequences of batch evaluations on ONE model
    (counter accumulates once per call), with pool reconfiguration as the fault."""
    import hypothesis
    from hypothesis import settings
    from hypothesis import strategies as st
    from hypothesis.stateful import RuleBasedStateMachine, initialize, rule, run_state_machine_as_test

    from nessai.utils.multiprocessing import initialise_pool_variables

    from sim.modelzoo import SEAM, build

    seed = job["seed"]
    log = []
    found = {}

    class Machine(RuleBasedStateMachine):
        @initialize(m=st.integers(0, len(MODELS) - 1))
        def init(self, m):
            mname, mspec, attrs = MODELS[m]
            self.mname = mname
            self.model = build(mspec)
            for a, v in attrs.items():
                setattr(self.model, a, v)
            SEAM.check_support = False
            self.expected = 0
            self.ops = [("init", mname)]
            stt = np.random.get_state()
            _ = self.model.vectorised_likelihood, self.model.vectorised_prior
            np.random.set_state(stt)
            self.model.likelihood_evaluations = 0

        @rule(k=st.integers(0, 4), s=st.integers(0, 10 ** 6))
        def reconfigure_pool(self, k, s):
            self.ops.append(("pool", k, s))
            self.model.close_pool()
            if k:
                initialise_pool_variables(self.model)
                self.model.configure_pool(pool=FixedSchedulePool(k, seed=s))
            else:
                self.model.configure_pool()

        @rule(c=st.one_of(st.none(), st.integers(1, 14)))
        def set_chunk(self, c):
            self.ops.append(("chunk", c))
            self.model.likelihood_chunksize = c

        @rule(n=st.integers(0, 13), unit=st.booleans(), s=st.integers(0, 10 ** 6))
        def evaluate(self, n, unit, s):
            self.ops.append(("eval", n, unit, s))
            x = make_points(self.model, n, np.random.RandomState(s), unit)
            out = self.model.batch_evaluate_log_likelihood(x, unit_hypercube=unit)
            ref, _ = pointwise(self.model, x, "ll", unit)
            self.expected += n
            assert np.array_equal(np.asarray(out, dtype="float64"), ref), "C10-likelihood-values"
            assert self.model.likelihood_evaluations == self.expected, "C10-counter"

        @rule(n=st.integers(0, 13), unit=st.booleans(), s=st.integers(0, 10 ** 6))
        def prior(self, n, unit, s):
            self.ops.append(("prior", n, unit, s))
            x = make_points(self.model, n, np.random.RandomState(s), unit)
            out = self.model.batch_evaluate_log_prior(x, unit_hypercube=unit)
            ref, _ = pointwise(self.model, x, "lp", unit)
            assert np.array_equal(np.asarray(out, dtype="float64"), ref), "C10-prior-values"
            assert self.model.likelihood_evaluations == self.expected, "C10-counter"

        @rule(s=st.integers(0, 10 ** 6))
        def single(self, s):
            self.ops.append(("single", s))
            x = make_points(self.model, 1, np.random.RandomState(s), False)
            v = self.model.evaluate_log_likelihood(x)
            ref, _ = pointwise(self.model, x, "ll", False)
            self.expected += 1
            assert np.asarray(v, dtype="float64").reshape(-1)[0] == ref[0], "C10-likelihood-values"
            assert self.model.likelihood_evaluations == self.expected, "C10-counter"

        def teardown(self):
            log.append(len(getattr(self, "ops", [])))
            found["last_ops"] = list(getattr(self, "ops", []))

    n_examples = job["examples"]
    M = hypothesis.seed(seed)(Machine)
    viol = []
    try:
        run_state_machine_as_test(M, settings=settings(max_examples=n_examples, stateful_step_count=job["steps"],
                                                       database=None, deadline=None, report_multiple_bugs=False,
                                                       suppress_health_check=list(hypothesis.HealthCheck)))
    except AssertionError as e:
        oracle = str(e).split("\n")[0][:40] or "C10-machine"
        viol.append({"oracle": oracle, "key": f"{oracle}|machine", "detail": {"ops": found.get("last_ops"), "seed": seed},
                     "world": {"machine_seed": seed, "ops": found.get("last_ops")}})
    return {"evaluations": len(log), "runs": len(log), "incarnations": 0, "violations": viol,
            "signatures": [f"machine|{seed}|{i}" for i in range(len(log))],
            "nontrivial": [f"machine|{seed}|{i}" for i, n in enumerate(log) if n > 3],
            "faults": {"pool_reconfigured": 0}, "probes": {"machine_steps": int(sum(log))},
            "sample": {"machine_ops": found.get("last_ops", [])[:12]}, "aborted": [], "sim_time": 0.0}


def body(r):
    seed, tier = r.seed, r.tier
    if r.replay:
        with open(r.replay) as f:
            rep = json.load(f)
        w = rep["world"]
        if "cell" in w:
            res = grid_job({"cells": [w["cell"]]})
        elif "real_cell" in w:
            res = real_pool_job({"cell": w["real_cell"]})
        else:
            res = machine_job({"seed": w["machine_seed"], "examples": 400, "steps": 30})
        r.absorb(res)
        return r.finish("replay")
    rr = R.stream(seed, "c10")
    cells = []
    nmax = 12
    for mname, mspec, attrs in MODELS:
        for N in range(0, nmax + 1):
            for chunk in [None] + list(range(1, N + 2)):
                for k in (0, 1, 2, 3, 4):
                    for unit in (False, True):
                        if k == 0:
                            cells.append([mname, mspec, attrs, N, chunk, 0, None, unit, rr.randrange(10 ** 9)])
                        else:
                            ns = 8 if tier == "quick" else 24
                            for perm in range(ns):
                                cells.append([mname, mspec, attrs, N, chunk, k, perm, unit, rr.randrange(10 ** 9)])
    if tier == "quick":
        # every cell of the grid, schedules per pooled cell reduced to 3 (seeded)
        keep = []
        for c in cells:
            if c[5] == 0 or c[6] < 3:
                keep.append(c)
        cells = keep
    per = 400
    jobs = [{"cells": cells[i:i + per]} for i in range(0, len(cells), per)]
    for res in r.map(grid_job, jobs, "grid"):
        r.absorb(res)
    mjobs = [{"seed": R.seed32(seed, "c10-machine", i), "examples": 60 if tier == "quick" else 1500, "steps": 30}
             for i in range(16)]
    for res in r.map(machine_job, mjobs, "machine"):
        r.absorb(res)
    if tier == "thorough":
        rjobs = []
        for mname, mspec, attrs in MODELS[:3]:
            for N in (0, 1, 5, 12):
                for k in (1, 2, 3, 4):
                    for chunk in (None, 1, 5):
                        rjobs.append({"cell": [mname, mspec, attrs, N, chunk, k, bool((N + k) % 2),
                                               rr.randrange(10 ** 9), "n_pool" if (N + k) % 3 == 0 else "user"]})
        for res in r.map(real_pool_job, rjobs, "real-pools"):
            r.absorb(res)
    r.selftest = {"pairs": 0, "equal": 0}
    return r.finish(
        rule=("exhaustive grid: batch size N in 0..12 x chunk size in {None, 1..N+1} x pool in {none, simulated pool "
              "of 1..4 workers} x {vectorised, vectorised with non-uniform prior, vectorisation not allowed, "
              "scalar-returning} model x physical / unit-hypercube input, likelihood and both prior functions; per "
              "pooled cell seeded task completion orders (all permutations when <= 4 tasks; quick 3, thorough 24 "
              "per cell). Oracle: output equals the pointwise evaluation element-wise, in order, bitwise; the raw "
              "user likelihood saw exactly the (mapped) points once each; the counter grew by exactly N; priors do "
              "not touch it. Plus a Hypothesis stateful machine (16 seeds) over call sequences on one model with "
              "pool reconfiguration; thorough: real fork pools. distinct = (model, N, chunk, pool, space, schedule "
              "hash); non-trivial = N > 0."),
        extra={"grid_cells": len(cells)},
        exhaustive=True,
        assumptions=["simulated pool implements multiprocessing.Pool.map semantics (result by task index)",
                     "exhaustive over the stated grid; schedules sampled"],
    )


if __name__ == "__main__":
    runner.main(PROP, "exploration", body)
