"""C01 — live set evolves only by likelihood-constrained replacement (DESIGN.md 5.1)."""
import os
import sys

sys.path.insert(0, os.path.dirname(os.path.abspath(__file__)))
sys.path.insert(0, os.path.dirname(os.path.dirname(os.path.abspath(__file__))))

import swarm  # noqa: E402
from sim import rng as R  # noqa: E402
from sim import runner  # noqa: E402

PROP = "C01"
ORACLES = ("NS-LIVE", "NS-REPLACE", "NS-DEAD", "NS-INDEX", "NS-FINAL", "VAL-")
# the functions that implement the replace step: an exception raised by them is the replace step failing
STEP_SITES = ("NestedSampler.insert_live_point", "NestedSampler.consume_sample", "_NSIntegralState.increment",
              "NestedSampler.populate_live_points", "NestedSampler.finalise")


def body(r):
    if r.replay:
        return swarm.replay_world(r, PROP, oracles=ORACLES, abort_sites=STEP_SITES)
    n = 160 if r.tier == "quick" else 5000
    rr = R.stream(r.seed, "c01-plans")
    worlds = [swarm.build_world(r.seed, i, "ns", ["ns"], rr, p_fault=0.5) for i in range(n)]
    swarm.run_swarm(r, PROP, worlds, oracles=ORACLES, abort_sites=STEP_SITES)
    return r.finish(
        minimise=swarm.make_minimiser(PROP, (), ORACLES, abort_sites=STEP_SITES),
        rule=("seeded swarm of complete standard-sampler runs (model, nlive, proposal class, latent prior, "
              "reparameterisation, flow type, uninformed phase, checkpoint trigger, pool all vary); half carry 1-3 "
              "kill-and-resume cycles (kills at likelihood calls / fs events, torn writes) and clock stalls. The "
              "live-set monitor checks NS-LIVE/REPLACE/DEAD/INDEX after every consume_sample, after "
              "populate_live_points, after finalise and right after each resume. distinct = (sampler config "
              "signature, fault kinds fired, incarnations); non-trivial = the run finished (so every iteration was "
              "monitored) or violated."),
        assumptions=["tiny flows (1-2 blocks, 2-8 neurons), nlive 10-60", "models from the zoo (pure, exactly rounded)"],
    )


if __name__ == "__main__":
    runner.main(PROP, "exploration", body)
