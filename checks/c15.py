"""C15 — sampling stops exactly per the stopping rule; finished runs are idempotent (DESIGN.md 5.15)."""
import os
import sys

sys.path.insert(0, os.path.dirname(os.path.abspath(__file__)))
sys.path.insert(0, os.path.dirname(os.path.dirname(os.path.abspath(__file__))))

import swarm  # noqa: E402
from sim import rng as R  # noqa: E402
from sim import runner  # noqa: E402

PROP = "C15"
ORACLES = ("C15-", "NS-FINAL", "INS-FINAL")
JUDGES = ("idempotent",)


def worlds_for(r, n_ns, n_ins):
    rr = R.stream(r.seed, "c15-plans")
    out = []
    for i in range(n_ns):
        w = swarm.build_world(r.seed, 100000 + i, "ns", ["ns", "stop", "res"], rr, p_fault=0.25, max_cycles=2)
        w["after"] = ["rerun", "rerun"]
        w["after_finish_incarnations"] = 2
        out.append(w)
    for i in range(n_ins):
        w = swarm.build_world(r.seed, 110000 + i, "ins", ["ins", "stop", "res"], rr, p_fault=0.25, max_cycles=2)
        w["after"] = ["rerun", "rerun"]
        w["after_finish_incarnations"] = 2
        out.append(w)
    return out


def body(r):
    if r.replay:
        return swarm.replay_world(r, PROP, judges_=JUDGES, oracles=ORACLES)
    n_ns, n_ins = (70, 50) if r.tier == "quick" else (2200, 1400)
    swarm.run_swarm(r, PROP, worlds_for(r, n_ns, n_ins), judges_=JUDGES, oracles=ORACLES)
    return r.finish(
        minimise=swarm.make_minimiser(PROP, JUDGES, ORACLES),
        rule=("seeded swarm over tolerances, iteration caps/minimums, every INS criterion and alias, single and "
              "multiple criteria with any/all. Per iteration the monitor recomputes the compared quantity "
              "(NS: remaining-evidence estimate from the state after removal; INS: ess = Kish ESS, log_dZ, "
              "Z_err / fractional error from the samples, ratio / ratio_ns by their documented formulas) and checks "
              "the run stopped at the first iteration the rule allows, that history holds the compared values, and "
              "that finalise consumed every live point once. History: after run() returns -> run() twice more in "
              "the same process -> two fresh incarnations resuming the final checkpoint; each must return identical "
              "evidence/samples/weights with zero further likelihood evaluations (nessai's counter, the API seam "
              "and the raw model). distinct = (config signature, faults, incarnations); non-trivial = run finished."),
        assumptions=["idempotence is judged for converged (finalised) runs; runs cut by max_iteration are probed, "
                     "not judged, because the property does not say a capped run is 'finished'"],
    )


if __name__ == "__main__":
    runner.main(PROP, "exploration", body)
