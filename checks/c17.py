"""C17 — INS level thresholds honour min_samples, min_remove, max_samples (in-run clauses; DESIGN.md 5.17)."""
import os
import sys

sys.path.insert(0, os.path.dirname(os.path.abspath(__file__)))
sys.path.insert(0, os.path.dirname(os.path.dirname(os.path.abspath(__file__))))

import swarm  # noqa: E402
from sim import rng as R  # noqa: E402
from sim import runner  # noqa: E402

PROP = "C17"
ORACLES = ("C17-",)


def body(r):
    if r.replay:
        return swarm.replay_world(r, PROP, oracles=ORACLES)
    n = 100 if r.tier == "quick" else 3000
    rr = R.stream(r.seed, "c17-plans")
    worlds = [swarm.build_world(r.seed, 70000 + i, "ins", ["ins"], rr, p_fault=0.3, max_cycles=2) for i in range(n)]
    swarm.run_swarm(r, PROP, worlds, oracles=ORACLES)
    return r.finish(
        minimise=swarm.make_minimiser(PROP, (), ORACLES),
        rule=("seeded swarm of importance-sampler runs with min_samples close to nlive, large min_remove, small "
              "max_samples, entropy and quantile methods, include_likelihood; at every iteration (incl. after "
              "resume) the wrapper on determine_log_likelihood_threshold checks: threshold is a live sample's logL; "
              "exactly min_samples kept when the method's own choice would keep fewer; else at least min_remove "
              "removed; next level <= max_samples with constant draws; add_new_proposal trains on >= min_samples; "
              "the weighted quantile on each live set is monotone in q, within the data range and equals the "
              "Harrell-Davis quantile for equal weights. distinct = (config signature, faults, incarnations); "
              "non-trivial = run finished. Arbitrary weight vectors no run reaches are NOT decided here."),
        assumptions=["in-run clauses only; degenerate weight vectors that no run reaches are out of family"],
    )


if __name__ == "__main__":
    runner.main(PROP, "exploration", body)
