"""C17 — INS level thresholds honour min_samples, min_remove, max_samples (in-run clauses; DESIGN.md 5.17)."""
import os
import sys

sys.path.insert(0, os.path.dirname(os.path.abspath(__file__)))
sys.path.insert(0, os.path.dirname(os.path.dirname(os.path.abspath(__file__))))

import swarm  # noqa: E402
from sim import rng as R  # noqa: E402
from sim import runner  # noqa: E402

PROP = "C17"
ORACLES = ("C17-",)


def body(r):
    if r.replay:
        return swarm.replay_world(r, PROP, oracles=ORACLES)
    n = 100 if r.tier == "quick" else 3000
    rr = R.stream(r.seed, "c17-plans")
    worlds = [swarm.build_world(r.seed, 70000 + i, "ins", ["ins"], rr, p_fault=0.3, max_cycles=2) for i in range(n)]
    # targeted: a min_remove of a quarter to a half of nlive with small min_samples and steep thresholds, so that
    # the live set can become smaller than min_remove (the clamp must then stay inside the live set)
    for i in range(24 if r.tier == "quick" else 400):
        w = swarm.build_world(r.seed, 75000 + i, "ins", ["ins"], rr, p_fault=0.2, max_cycles=1)
        k = w["scenario"]["kwargs"]
        k.pop("n_update", None)
        k.pop("max_samples", None)
        k["min_remove"] = k["nlive"] // rr.choice([4, 3, 2])
        k["min_samples"] = rr.choice([2, 5, 10])
        k["strict_threshold"] = rr.random() < 0.7
        k["threshold_method"] = "quantile"
        k["threshold_kwargs"] = {"q": rr.choice([0.5, 0.8, 0.95]), "include_likelihood": rr.random() < 0.6}
        k["max_iteration"] = rr.choice([6, 8, 10])
        k.pop("min_iteration", None)
        worlds.append(w)
    swarm.run_swarm(r, PROP, worlds, oracles=ORACLES)
    return r.finish(
        minimise=swarm.make_minimiser(PROP, (), ORACLES),
        rule=("seeded swarm of importance-sampler runs with min_samples close to nlive, large min_remove, small "
              "max_samples, entropy and quantile methods, include_likelihood; at every iteration (incl. after "
              "resume) the wrapper on determine_log_likelihood_threshold checks: threshold is a live sample's logL; "
              "exactly min_samples kept when the method's own choice would keep fewer; else at least min_remove "
              "removed; next level <= max_samples with constant draws; add_new_proposal trains on >= min_samples; "
              "the weighted quantile on each live set is monotone in q, within the data range and equals the "
              "Harrell-Davis quantile for equal weights. distinct = (config signature, faults, incarnations); "
              "non-trivial = run finished. Arbitrary weight vectors no run reaches are NOT decided here."),
        assumptions=["in-run clauses only; degenerate weight vectors that no run reaches are out of family"],
    )


if __name__ == "__main__":
    runner.main(PROP, "exploration", body)
