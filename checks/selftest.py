"""Self-tests of the simulator: determinism and sensitivity.

determinism [N]: N seeded worlds (both samplers, with fault plans) x 2 executions each, at two
  worker counts, plus a fresh interpreter under another PYTHONHASHSEED; event-log digests must be equal.
sensitivity: every /verif/mutants/*.patch (and /verif/seeded/*/patch.diff) is applied to a scratch copy of
  the repository outside /repo and /verif; the check that owns it must report a violation in its quick tier.
"""
import json
import os
import shutil
import subprocess
import sys
import tempfile

HERE = os.path.dirname(os.path.dirname(os.path.abspath(__file__)))
sys.path.insert(0, os.path.join(HERE, "checks"))


def world_digest_job(world):
    from sim import world as W

    out = W.run_world(world)
    return {"digest": W.event_log_digest(out["records"]), "portable": W.event_log_digest(out["records"], portable=True),
            "exits": [i["exit"] for i in out["incarnations"]]}


def determinism(n):
    from sim import env, farm
    from sim import rng as R

    env.import_system()
    os.environ["NESSAI_SIM_ROOT"] = os.path.join(env.scratch_root(), f"nessai-sim-{os.getpid()}")
    import swarm

    seed = int(os.environ.get("VERIF_SEED", "20261004"))
    rr = R.stream(seed, "selftest")
    worlds = []
    for i in range(n):
        sampler = "ns" if i % 2 == 0 else "ins"
        worlds.append(swarm.build_world(seed, 900000 + i, sampler, [sampler, "res"], rr, p_fault=0.7, max_cycles=3))
    # every fault kind the checks use takes part: a signal inside a file-system event, and a kill chain in which the
    # restored run is killed inside its first checkpoint
    for i in range(4):
        sampler = "ns" if i % 2 == 0 else "ins"
        w = swarm.build_world(seed, 900500 + i, sampler, [sampler, "res"], rr, p_fault=0.0, stalls=False)
        if i < 2:
            w["plan"] = [{"inc": 0, "kind": "signal_fs", "signum": 15, "event": 12 + 9 * i}]
        else:
            w["plan"] = [{"inc": 0, "kind": "kill_fs", "event": 14, "prefix": None},
                         {"inc": 1, "kind": "kill_fs", "event": 3, "prefix": 100}]
        w["downtimes"] = [60.0, 5.0]
        w["max_incarnations"] = 4
        worlds.append(w)
    n = len(worlds)
    runs = {}
    for jobs in (16, 5):
        for rep in range(2):
            res = [r for _, r in sorted(farm.run_jobs(world_digest_job, worlds, jobs=jobs))]
            runs[(jobs, rep)] = [x["digest"] for x in res]
            portable = [x["portable"] for x in res]
    base = runs[(16, 0)]
    bad = 0
    for k, v in runs.items():
        for i, (a, b) in enumerate(zip(base, v)):
            if a != b:
                bad += 1
                print(f"NONDETERMINISM world {i} differs between (16,0) and {k}")
    # fresh interpreter, other hash seed
    fresh_bad = 0
    for i in range(min(4, n)):
        with tempfile.NamedTemporaryFile("w", suffix=".json", delete=False, dir="/dev/shm") as f:
            json.dump(worlds[i], f)
            path = f.name
        envv = dict(os.environ, PYTHONHASHSEED=str(777 + i), NESSAI_SIM_BOOT="1")
        envv.pop("NESSAI_SIM_ROOT", None)
        p = subprocess.run([sys.executable, os.path.join(HERE, "bin", "nessai-sim"), "run-world", path],
                           capture_output=True, text=True, env=envv, timeout=900)
        os.unlink(path)
        line = [ln for ln in p.stdout.splitlines() if ln.startswith("NESSAI-SIM-RESULT ")]
        d = json.loads(line[0].split(" ", 1)[1]) if line else {}
        if d.get("portable_digest") != portable[i]:
            fresh_bad += 1
            print(f"NONDETERMINISM world {i}: fresh interpreter / hash seed {777 + i} gives another event log")
    total = len(base) * (len(runs) - 1)
    print(f"determinism: {n} worlds x 2 executions x 2 worker counts: {total - bad}/{total} equal; "
          f"fresh interpreter under another PYTHONHASHSEED: {min(4, n) - fresh_bad}/{min(4, n)} equal")
    shutil.rmtree(os.environ["NESSAI_SIM_ROOT"], ignore_errors=True)
    return 0 if not bad and not fresh_bad else 2


def sensitivity(only=None):
    import glob

    items = []
    for pth in sorted(glob.glob(os.path.join(HERE, "mutants", "*.patch"))):
        owner = os.path.basename(pth).split("-")[0].upper()
        items.append((pth, [owner], "quick"))
    for meta in sorted(glob.glob(os.path.join(HERE, "seeded", "*", "meta.json"))):
        with open(meta) as f:
            m = json.load(f)
        if m.get("caught_by") and m.get("confirmed"):
            owner = m["caught_by"][0]
            hist = (m.get("checks_history") or {}).get(owner) or [{}]
            tier = next((h.get("tier", "quick") for h in reversed(hist) if h.get("caught")), "quick")
            items.append((os.path.join(os.path.dirname(meta), "patch.diff"), [owner], tier))
    if only:
        items = [it for it in items if any(o in it[0] for o in only)]
    scratch_root = os.environ.get("VERIF_SCRATCH", "/var/tmp")
    failures = 0
    for pth, owners, tier in items:
        tmp = tempfile.mkdtemp(prefix="nessai-mutant-", dir=scratch_root)
        try:
            subprocess.run(["git", "-C", "/repo", "worktree", "add", "--detach", "-q", os.path.join(tmp, "repo"), "HEAD"],
                           check=True)
            repo = os.path.join(tmp, "repo")
            ap = subprocess.run(["git", "-C", repo, "apply", pth], capture_output=True, text=True)
            if ap.returncode != 0:
                print(f"SENSITIVITY {os.path.basename(os.path.dirname(pth)) or pth}: patch does not apply: {ap.stderr[:200]}")
                failures += 1
                continue
            for owner in owners:
                envv = dict(os.environ, VERIF_REPO=repo, VERIF_EVIDENCE_DIR=os.path.join(tmp, "ev"),
                            VERIF_REPLAY_DIR=os.path.join(tmp, "rp"))
                envv.pop("NESSAI_SIM_BOOT", None)
                p = subprocess.run([os.path.join(HERE, "bin", "check"), owner, "--tier", tier],
                                   capture_output=True, text=True, env=envv, timeout=3600)
                caught = p.returncode == 1 and "VIOLATION property=" in p.stdout
                print(f"SENSITIVITY {pth.replace(HERE + '/', '')} -> {owner} ({tier}): {'caught' if caught else 'MISSED'} "
                      f"(exit {p.returncode})", flush=True)
                if not caught:
                    failures += 1
        finally:
            subprocess.run(["git", "-C", "/repo", "worktree", "remove", "--force", os.path.join(tmp, "repo")],
                           capture_output=True)
            shutil.rmtree(tmp, ignore_errors=True)
    print(f"sensitivity: {len(items) - failures}/{len(items)} seeded changes caught by their owning check")
    return 0 if failures == 0 else 1


def main(argv):
    if not argv:
        print(__doc__)
        return 2
    if argv[0] == "determinism":
        return determinism(int(argv[1]) if len(argv) > 1 else 24)
    if argv[0] == "sensitivity":
        return sensitivity(argv[1:] or None)
    print(__doc__)
    return 2
