"""C12 — resuming restores the state and yields a valid, accounted run (DESIGN.md 5.12)."""
import os
import sys

sys.path.insert(0, os.path.dirname(os.path.abspath(__file__)))
sys.path.insert(0, os.path.dirname(os.path.dirname(os.path.abspath(__file__))))

import swarm  # noqa: E402
from sim import rng as R  # noqa: E402
from sim import runner  # noqa: E402

PROP = "C12"
JUDGES = ("resume_eq", "accounting", "completion")


def body(r):
    if r.replay:
        return swarm.replay_world(r, PROP, judges_=JUDGES)
    n_ns, n_ins = (70, 50) if r.tier == "quick" else (2200, 1400)
    rr = R.stream(r.seed, "c12-plans")
    worlds = [swarm.build_world(r.seed, 80000 + i, "ns", ["ns", "res"], rr, p_fault=1.0, max_cycles=5)
              for i in range(n_ns)]
    worlds += [swarm.build_world(r.seed, 90000 + i, "ins", ["ins", "res"], rr, p_fault=1.0, max_cycles=5)
               for i in range(n_ins)]
    # targeted: a termination signal that arrives while a file-system event is in progress, i.e. (mostly) while a
    # periodic checkpoint or a weights save is being written: the handler then checkpoints inside the checkpoint
    for i in range(16 if r.tier == "quick" else 400):
        sampler = "ns" if i % 4 else "ins"
        w = swarm.build_world(r.seed, 95000 + i, sampler, [sampler, "res"], rr, p_fault=0.0, stalls=False)
        w["plan"] = [{"inc": 0, "kind": "signal_fs", "signum": rr.choice([15, 15, 2, 14]),
                      "event": rr.randrange(2, 70) if sampler == "ns" else rr.randrange(2, 30)}]
        w["downtimes"] = [rr.choice([1.0, 60.0, 3600.0])]
        w["max_incarnations"] = 3
        worlds.append(w)
    swarm.run_swarm(r, PROP, worlds, judges_=JUDGES, need_fault=True)
    return r.finish(
        minimise=swarm.make_minimiser(PROP, JUDGES, None),
        rule=("seeded swarm of kill/resume chains of length 1-5 for both samplers (kills at arbitrary likelihood "
              "calls and fs events incl. torn writes; iteration- and time-triggered checkpoints, uninformed and "
              "flow phase, populated or empty pool, before/after training, with and without saved density "
              "tables; downtime 1 s - 1e5 s on the virtual clock; plus targeted worlds in which a termination signal "
              "arrives while a file-system event of a checkpoint or weights save is in progress). RESUME-EQ: digest of the sampler when each "
              "checkpoint was written vs digest after FlowSampler(resume=True) in a fresh process, field by field "
              "(iteration, live/dead points, evidence state, insertion indices, history, pools, training counters, "
              "reparameterisation state, counters, timings). ACCT-EVALS: counter = value resumed from + points "
              "counted at the model API in this incarnation. ACCT-TIME: sampling/training/likelihood times inside "
              "the two-sided band that excludes downtime and double counting. The resumed run must complete and "
              "pass NS-*/INS-* and RES-*. distinct = (config signature, faults, incarnations); non-trivial = a "
              "kill fired and the run finished or violated."),
        assumptions=["virtual clock costs per likelihood point / training / io chosen by the scenario",
                     "fields nessai resets by design (resumed, initialised, model, checkpoint_callback, RNG state) excluded"],
    )


if __name__ == "__main__":
    runner.main(PROP, "exploration", body)
