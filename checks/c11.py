"""C11 — a process kill during checkpointing never leaves the run unresumable.

Fault enumeration: a recording pass lists the fs events of every checkpoint
and of every weights save of a scenario; the check then kills after every such
event and inside every write (prefix lengths), restarts in a fresh process
with resume enabled and requires CRASH-RESUMABLE, CRASH-EQ, CRASH-FRESH and
CRASH-CONTINUE (DESIGN.md 5.11).
"""
import os
import sys

sys.path.insert(0, os.path.dirname(os.path.dirname(os.path.abspath(__file__))))

from sim import jobs as J  # noqa: E402
from sim import rng as R  # noqa: E402
from sim import runner  # noqa: E402
from sim import scenarios as S  # noqa: E402
from sim import world as W  # noqa: E402

PROP = "C11"


# ----------------------------------------------------------------------------
def scenario_matrix(seed, tier):
    out = []
    out.append(("ns-iter", S.simple_ns(seed, 0)))
    out.append(("ns-time", S.simple_ns(seed, 1, checkpoint_on_iteration=False, checkpoint_interval=0.5)))
    out.append(("ns-ontrain", S.simple_ns(seed, 2, checkpoint_on_training=True, checkpoint_interval=50,
                                          maximum_uninformed=10)))
    try:
        from sim import scenarios_ins as SI
    except ImportError:
        return out

    out.append(("ins-keep", SI.simple_ins(seed, 3, save_existing_checkpoint=True)))
    out.append(("ins-nokeep", SI.simple_ins(seed, 4, save_existing_checkpoint=False)))
    if tier == "thorough":
        out.append(("ns-nouninformed", S.simple_ns(seed, 5, maximum_uninformed=False, nlive=20,
                                                   checkpoint_interval=7)))
        out.append(("ns-maf", S.simple_ns(seed, 6, nlive=25, checkpoint_interval=15,
                                          flow_config=dict(n_blocks=1, n_neurons=4, n_layers=1, ftype="maf"))))
        out.append(("ns-dims3", dict(S.simple_ns(seed, 7, nlive=20, checkpoint_interval=11),
                                     model={"name": "gauss", "dims": 3})))
        out.append(("ins-logq", SI.simple_ins(seed, 8, save_existing_checkpoint=True, save_log_q=True)))
        out.append(("ins-strict", SI.simple_ins(seed, 9, save_existing_checkpoint=True, strict_threshold=True)))
        for k in range(6):
            out.append((f"ns-swarm{k}", S.ns_scenario(seed, 1000 + k, profile="noclustering")))
    return out


def base_world(seed, scn, monitors=None):
    sampler = scn["sampler"]
    return {
        "seed": seed,
        "scenario": scn,
        "monitors": monitors or ([sampler, "res"]),
        "plan": [],
        "max_incarnations": 4,
        "budget_steps": 30_000_000,
    }


# ----------------------------------------------------------------------------
def record_job(job):
    """Recording pass: run without faults, return the fs trace + windows."""
    world = dict(job["world"])
    world["weights_snapshots"] = bool(job.get("weights_snapshots"))
    out = W.run_world(world, keep=bool(job.get("weights_snapshots")), base_dir=job.get("base_dir"))
    res = J.summarise(world, out)
    recs = out["records"]
    fs = [r for r in recs if r["k"] == "fs" and r["i"] == 0]
    ck_begin = {r["ordinal"]: r for r in recs if r["k"] == "ckpt_begin" and r["i"] == 0}
    ck_done = {r["ordinal"]: r for r in recs if r["k"] == "ckpt_done" and r["i"] == 0}
    res["fs"] = [{k: v for k, v in r.items() if k in ("e", "op", "path", "dst", "nbytes")} for r in fs]
    res["ckpts"] = [{"ordinal": o, "first": ck_begin[o]["fs_event"], "last": ck_done[o]["fs_event"] - 1,
                     "iteration": ck_begin[o]["iteration"], "phase": ck_begin[o]["phase"],
                     "finalised": ck_begin[o]["finalised"]}
                    for o in sorted(ck_begin) if o in ck_done]
    res["dir"] = out["dir"]
    res["name"] = job["name"]
    ex = [r for r in recs if r["k"] == "exit" and r["i"] == 0]
    res["steps"] = ex[0]["steps"] if ex else 0
    return res


def pick_ckpts(ckpts, tier):
    if not ckpts:
        return []
    if tier == "thorough" or len(ckpts) <= 4:
        return ckpts
    idx = sorted({0, 1, len(ckpts) // 2, len(ckpts) - 2, len(ckpts) - 1})
    return [ckpts[i] for i in idx if 0 <= i < len(ckpts)]


def weights_windows(fs):
    """Groups of events of one weights save: [rename->.old] create write [rename tmp->final]."""
    wins = []
    i = 0
    n = len(fs)
    while i < n:
        e = fs[i]
        if e["path"] and (".pt" in e["path"]) and e["path"].split("/")[-1].startswith("model.pt"):
            j = i
            while j < n and fs[j]["path"] and fs[j]["path"].split("/")[-1].startswith("model.pt"):
                j += 1
            wins.append(fs[i:j])
            i = j
        else:
            i += 1
    return wins


def prefixes(nbytes, tier, kind):
    if nbytes <= 0:
        return [0]
    base = {0, 1, nbytes // 2, nbytes - 1}
    if tier == "thorough":
        if kind == "pickle":
            base |= set(range(0, nbytes, max(64, nbytes // 40)))
    else:
        base |= {nbytes // 4, 3 * nbytes // 4}
    return sorted(p for p in base if 0 <= p < nbytes)


def kill_points(rec, tier, r):
    """Enumerate (event, prefix|None, class) for a recorded scenario."""
    fs = {e["e"]: e for e in rec["fs"]}
    pts = []
    for ck in pick_ckpts(rec["ckpts"], tier):
        first, last = ck["first"], ck["last"]
        if first - 1 >= 0:
            pts.append((first - 1, None, f"ckpt{ck['ordinal']}:before"))
        for e in range(first, last + 1):
            ev = fs.get(e)
            if ev is None:
                continue
            cls = f"ckpt:{ev['op']}:{path_class(ev)}"
            pts.append((e, None, cls))
            if ev["op"] == "write":
                for L in prefixes(ev["nbytes"], tier, "pickle"):
                    pts.append((e, L, cls + ":torn"))
    wins = weights_windows(rec["fs"])
    if tier != "thorough" and len(wins) > 3:
        wins = [wins[0], wins[len(wins) // 2], wins[-1]]
    for win in wins:
        if win[0]["e"] - 1 >= 0:
            pts.append((win[0]["e"] - 1, None, "weights:before"))
        for ev in win:
            cls = f"weights:{ev['op']}:{path_class(ev)}"
            pts.append((ev["e"], None, cls))
            if ev["op"] == "write":
                for L in prefixes(ev["nbytes"], tier, "weights"):
                    pts.append((ev["e"], L, cls + ":torn"))
    # dedupe, keep order
    seen = set()
    out = []
    for p in pts:
        if (p[0], p[1]) not in seen:
            seen.add((p[0], p[1]))
            out.append(p)
    return out


def path_class(ev):
    p = ev.get("path") or ""
    d = ev.get("dst") or ""
    base = p.split("/")[-1]

    def c(b):
        if b.endswith(".pkl"):
            return "resume"
        if b.endswith(".pkl.old"):
            return "resume.old"
        if b.endswith(".pkl.temp"):
            return "resume.temp"
        if b.endswith(".pt"):
            return "weights"
        if b.endswith(".pt.old"):
            return "weights.old"
        if ".pt." in b:
            return "weights.tmp"
        return "other"

    s = c(base)
    if d:
        s += "->" + c(d.split("/")[-1])
    return s


# ----------------------------------------------------------------------------
def judge(world, out, rec_ckpts=None):
    """Parent-side C11 oracles over the recorded history of a killed world."""
    recs = out["records"]
    incs = out["incarnations"]
    viol = []
    fault = [f for f in world["plan"] if f["kind"].startswith("kill")][0]
    resume_name = world["scenario"]["kwargs"].get("resume_file", "nested_sampler_resume.pkl")

    def v(oracle, detail, key=None):
        viol.append({"oracle": oracle, "key": key or oracle, "detail": detail, "world": world})

    if world.get("optional_kill") and incs and incs[0]["exit"] != 137:
        return viol, {"skipped": True}
    if not incs or incs[0]["exit"] != 137:
        # the recorded prefix must be reproduced: otherwise harness nondeterminism
        return viol, {"harness_error": {"what": "planned kill did not fire", "exits": [i["exit"] for i in incs],
                                        "world": world}}
    kill = [r for r in recs if r["k"] == "kill" and r["i"] == 0]
    kev = kill[0].get("event", {}) if kill else {}
    site = f"{kev.get('op')}:{path_class(kev)}" + (":torn" if fault.get("prefix") is not None else "")
    done0 = [r for r in recs if r["k"] == "fs" and r["i"] == 0 and r["op"] == "rename"
             and (r.get("dst") or "").endswith(resume_name) and "torn_at" not in r]
    c = len(done0)
    if done0 and done0[-1].get("ckpt") is not None:
        c = done0[-1]["ckpt"]  # ordinal of the last checkpoint whose rename completed (handler checkpoints nest)
    begins = {r["ordinal"]: r for r in recs if r["k"] == "ckpt_begin" and r["i"] == 0}
    wsaved = [r for r in recs if r["k"] == "weights_saved" and r["i"] == 0]
    if len(incs) < 2:
        return viol, {"harness_error": {"what": "no restart happened", "world": world}}
    i1 = incs[1]
    con = [r for r in recs if r["k"] == "constructed" and r["i"] == 1]
    exc = [r for r in recs if r["k"] == "exception" and r["i"] == 1]
    if not con:
        e = exc[-1] if exc else {}
        v("C11-CRASH-RESUMABLE", {"what": "FlowSampler(resume=True) failed after the kill",
                                  "kill_site": site, "prefix": fault.get("prefix"),
                                  "completed_checkpoints": c,
                                  "exception": e.get("type"), "msg": (e.get("msg") or "")[:300],
                                  "tb": (e.get("tb") or "")[-800:]},
          key=f"C11-CRASH-RESUMABLE|{site}|{e.get('type')}")
        return viol, {}
    con = con[0]
    if c == 0:
        if con["resumed"] or con["iteration"] != 0:
            v("C11-CRASH-FRESH", {"what": "no checkpoint had completed but the run did not start afresh",
                                  "kill_site": site, "resumed": con["resumed"], "iteration": con["iteration"]},
              key=f"C11-CRASH-FRESH|{site}")
    else:
        if not con["resumed"]:
            v("C11-CRASH-EQ", {"what": "a checkpoint had completed but the run started afresh",
                               "kill_site": site, "completed_checkpoints": c},
              key=f"C11-CRASH-EQ|fresh|{site}")
        rest = [r for r in recs if r["k"] == "restored" and r["i"] == 1]
        if rest and c in begins:
            want = begins[c]["digest"]
            got = rest[0]["digest"]
            diff = sorted(k for k in want if k not in ("flow_weights", "flow_pool_populated")
                          and want.get(k) != got.get(k))
            pool = [r for r in recs if r["k"] == "restored_pool" and r["i"] == 1]
            if pool and "flow_pool_populated" in want:
                from sim.digest import h as _h

                if _h(bool(pool[0]["populated"] and pool[0]["n_indices"])) != want["flow_pool_populated"]:
                    diff.append("flow_pool_populated")
            if diff:
                # equal to some other complete checkpoint?
                other = [o for o, b in begins.items()
                         if all(b["digest"].get(k) == got.get(k) for k in want
                                if k not in ("flow_weights", "flow_pool_populated"))]
                v("C11-CRASH-EQ", {"what": "restored state is not the last completed checkpoint",
                                   "kill_site": site, "expected_ordinal": c, "equals_other_ordinal": other,
                                   "fields": diff, "restored_iteration": rest[0]["iteration"],
                                   "expected_iteration": begins[c]["iteration"]},
                  key=f"C11-CRASH-EQ|{site}|{','.join(diff[:4])}")
            gw = got.get("flow_weights")
            allowed = {b["digest"].get("flow_weights") for b in begins.values()}
            allowed |= {w.get("mhash") for w in wsaved}
            loads = [r for r in recs if r["k"] == "weights_load" and r["i"] == 1]
            complete_files = {w["sha"] for w in wsaved}
            for ld in loads:
                if ld.get("sha") not in complete_files:
                    v("C11-CRASH-WEIGHTS", {"what": "a weights file that was never completely written was loaded",
                                            "kill_site": site, "path": ld.get("path")},
                      key=f"C11-CRASH-WEIGHTS|{site}")
            saved_hashes = {w.get("mhash") for w in wsaved}
            trained_at_ckpt = want.get("flow_weights") in saved_hashes
            if world["scenario"]["sampler"] == "ns" and gw not in allowed and (loads or trained_at_ckpt):
                # the checkpoint holds a trained flow and complete weights exist on disk (current or .old):
                # the resumed flow must be one of them, never a torn file and never a fresh initialisation
                v("C11-CRASH-WEIGHTS", {"what": "restored flow weights equal no completely written weights"
                                        + ("" if loads else " (no weights file was loaded although the checkpoint "
                                           "holds a trained flow)"),
                                        "kill_site": site, "loaded": [ld.get("path") for ld in loads]},
                  key=f"C11-CRASH-WEIGHTS|hash|{site}")
    # CRASH-CONTINUE
    last = incs[-1]
    if world.get("stop_after_construct_from") is None:
        if last["exit"] == 70:
            e = [r for r in recs if r["k"] == "exception"][-1]
            v("C11-CRASH-CONTINUE", {"what": "resumed run raised", "kill_site": site,
                                     "exception": e.get("type"), "msg": e.get("msg", "")[:300],
                                     "phase": e.get("phase"), "tb": e.get("tb", "")[-800:]},
              key=f"C11-CRASH-CONTINUE|{site}|{e.get('type')}")
        elif last["exit"] == 72:
            v("C11-CRASH-CONTINUE", {"what": "resumed run exhausted its step budget", "kill_site": site},
              key=f"C11-CRASH-CONTINUE|{site}|budget")
    return viol, {"site": site, "c": c, "fresh": c == 0, "old_fallback": _fell_back(recs, resume_name)}


def _fell_back(recs, resume_name):
    reads = [r for r in recs if r["k"] == "fsread" and r["i"] == 1 and r["path"].endswith(resume_name + ".old")]
    return bool(reads)


def kill_job(job):
    world = job["world"]
    out = W.run_world(world)
    res = J.summarise(world, out)
    viol, info = judge(world, out)
    if info.get("harness_error"):
        res["harness_error"] = info["harness_error"]
    # child-side monitor violations in the resumed incarnations count as CRASH-CONTINUE
    for cv in res["violations"]:
        cv["oracle"] = "C11-CRASH-CONTINUE/" + cv["oracle"]
        cv["key"] = f"C11-CRASH-CONTINUE|{info.get('site')}|{cv['key']}"
    res["violations"] = res["violations"] + viol
    res["aborted"] = []  # exceptions are judged above
    sig = f"{job['name']}|{job['cls']}|{'fresh' if info.get('fresh') else 'resumed'}"
    res["signatures"] = [sig]
    res["nontrivial"] = [] if info.get("skipped") else [sig]
    if info.get("skipped"):
        res["probes"]["kill_after_signal_not_reached"] = 1
    if info.get("fresh"):
        res["probes"]["kill_before_first_checkpoint_completed"] = 1
    if info.get("old_fallback"):
        res["probes"]["resume_fell_back_to_old"] = 1
    if "->resume" in job["cls"] or "resume.temp" in job["cls"]:
        res["probes"]["kill_between_move_to_old_and_final_rename"] = 1
    if "weights" in job["cls"] and "torn" in job["cls"]:
        res["probes"]["kill_inside_weights_write"] = 1
    res["sample"] = {"scenario": job["name"], "kill": world["plan"][0], "class": job["cls"],
                     "exits": res["exits"], "completed_checkpoints": info.get("c")}
    return res


def synthetic_weights_job(job):
    """Thorough tier: torn weights states built directly from the snapshot
    taken at the 'create' event (durable state = completed ops + byte prefix)."""
    import shutil

    world = dict(job["world"])
    world["stop_after_construct_from"] = 0
    world["plan"] = []
    base = W.world_dir(world, tag=f"syn{job['event']}-{job['L']}")
    if os.path.exists(base):
        shutil.rmtree(base)
    src = job["snapshot"]
    stage = base + "-stage"
    if os.path.exists(stage):
        shutil.rmtree(stage)
    shutil.copytree(src, stage)
    with open(job["bytes"], "rb") as f:
        data = f.read()
    target = os.path.join(stage, job["path"])
    with open(target, "wb") as f:
        f.write(data[: job["L"]])
    try:
        out = W.run_world(world, base_dir=base, start_from=(stage, 1, 1000.0))
    finally:
        shutil.rmtree(stage, ignore_errors=True)
    res = J.summarise(world, out)
    res["aborted"] = []
    recs = out["records"]
    con = [r for r in recs if r["k"] == "constructed"]
    exc = [r for r in recs if r["k"] == "exception"]
    site = f"write:{job['pclass']}:torn"
    if not con:
        e = exc[-1] if exc else {}
        res["violations"].append({
            "oracle": "C11-CRASH-RESUMABLE", "key": f"C11-CRASH-RESUMABLE|{site}|{e.get('type')}",
            "detail": {"what": "FlowSampler(resume=True) failed on a torn weights file", "kill_site": site,
                       "prefix": job["L"], "exception": e.get("type"), "msg": (e.get("msg") or "")[:300]},
            "world": dict(job["world"], plan=[{"inc": 0, "kind": "kill_fs", "event": job["event"],
                                               "prefix": job["L"]}]),
        })
    sig = f"{job['name']}|weights-prefix|{job['L'] * 16 // max(1, len(data))}"
    res["signatures"] = [sig]
    res["nontrivial"] = [sig]
    res["faults"]["kill_torn_write"] = res["faults"].get("kill_torn_write", 0) + 1
    res["probes"]["kill_inside_weights_write"] = 1
    res["sample"] = None
    return res


# ----------------------------------------------------------------------------
# second-generation crash points: checkpoints written by a run that itself was restored after a kill
def chain_first_kills(rec):
    """First kills (incarnation 0, second checkpoint) that leave the three distinct durable layouts: only the
    `.old` file (between move-to-.old and the final rename), a torn temp file beside it, a completed checkpoint."""
    fs = {e["e"]: e for e in rec["fs"]}
    cks = rec["ckpts"]
    if len(cks) < 3:
        return []
    ck = cks[1]
    out = []
    for e in range(ck["first"], ck["last"] + 1):
        ev = fs.get(e)
        if not ev:
            continue
        pc = path_class(ev)
        if ev["op"] == "rename" and pc == "resume->resume.old":
            out.append((e, None, "first:old-only"))
        elif ev["op"] == "write" and pc == "resume.temp":
            out.append((e, max(1, ev["nbytes"] // 2), "first:torn-temp"))
        elif ev["op"] == "rename" and pc == "resume.temp->resume":
            out.append((e, None, "first:completed"))
    return out


def chain_record_job(job):
    """Run the world with the first kill only and return the fs events of the first checkpoint that the
    restored incarnation writes."""
    world = job["world"]
    out = W.run_world(world)
    recs = out["records"]
    res = {"name": job["name"], "cls": job["cls"], "world": world, "events": [], "first": None,
           "exits": [i["exit"] for i in out["incarnations"]]}
    b = [r for r in recs if r["k"] == "ckpt_begin" and r["i"] == 1]
    if b:
        o = b[0]["ordinal"]
        res["first"] = b[0]["fs_event"]
        res["events"] = [{k: v for k, v in r.items() if k in ("e", "op", "path", "dst", "nbytes")}
                         for r in recs if r["k"] == "fs" and r["i"] == 1 and r.get("ckpt") == o]
    return res


def chain_points(crec, tier):
    pts = []
    if crec["first"] is not None and crec["first"] - 1 >= 0:
        pts.append((crec["first"] - 1, None, "second:before"))
    for ev in crec["events"]:
        cls = f"second:{ev['op']}:{path_class(ev)}"
        pts.append((ev["e"], None, cls))
        if ev["op"] == "write":
            n = ev["nbytes"]
            for L in ([0, n // 2] if tier != "thorough" else [0, 1, n // 4, n // 2, n - 1]):
                if 0 <= L < n:
                    pts.append((ev["e"], L, cls + ":torn"))
    return pts


def chain_kill_job(job):
    """kill, restore, kill inside the first checkpoint of the restored run, restore again: the second restore
    must find the last checkpoint that completed in either incarnation."""
    from sim import judges as J2

    world = job["world"]
    out = W.run_world(world)
    res = J.summarise(world, out)
    recs = out["records"]
    incs = out["incarnations"]
    exits = [i["exit"] for i in incs]
    viol = []
    site = job["cls"]
    if exits[:2] != [137, 137]:
        res["harness_error"] = {"what": "planned kill chain did not fire", "exits": exits, "world": world}
    elif len(incs) < 3:
        res["harness_error"] = {"what": "no second restart happened", "exits": exits, "world": world}
    else:
        con = [r for r in recs if r["k"] == "constructed" and r["i"] == 2]
        if not con:
            exc = [r for r in recs if r["k"] == "exception" and r["i"] == 2]
            e = exc[-1] if exc else {}
            viol.append({"oracle": "C11-CRASH-RESUMABLE", "key": f"C11-CRASH-RESUMABLE|chain|{site}|{e.get('type')}",
                         "detail": {"what": "FlowSampler(resume=True) failed after the second kill", "kill_site": site,
                                    "exception": e.get("type"), "msg": (e.get("msg") or "")[:300],
                                    "tb": (e.get("tb") or "")[-800:]}, "world": world})
        else:
            v2, _info = J2.judge_resume_eq(world, out, prop="C11")
            for x in v2:
                x["oracle"] = x["oracle"].replace("C11-RESUME-", "C11-CRASH-")
                x["key"] = x["key"].replace("C11-RESUME-", "C11-CRASH-") + "|chain|" + site
                x["detail"]["kill_site"] = site
            viol += v2
            if exits[-1] == 70:
                e = [r for r in recs if r["k"] == "exception"][-1]
                viol.append({"oracle": "C11-CRASH-CONTINUE", "key": f"C11-CRASH-CONTINUE|chain|{site}|{e.get('type')}",
                             "detail": {"what": "run restored after the second kill raised", "kill_site": site,
                                        "exception": e.get("type"), "msg": e.get("msg", "")[:300],
                                        "tb": e.get("tb", "")[-800:]}, "world": world})
            elif exits[-1] == 72:
                viol.append({"oracle": "C11-CRASH-CONTINUE", "key": f"C11-CRASH-CONTINUE|chain|{site}|budget",
                             "detail": {"what": "run restored after the second kill exhausted its step budget",
                                        "kill_site": site}, "world": world})
    for cv in res["violations"]:
        cv["oracle"] = "C11-CRASH-CONTINUE/" + cv["oracle"]
        cv["key"] = f"C11-CRASH-CONTINUE|chain|{site}|{cv['key']}"
    res["violations"] = res["violations"] + viol
    res["aborted"] = []
    sig = f"{job['name']}|chain|{site}"
    res["signatures"] = [sig]
    res["nontrivial"] = [sig]
    res["probes"]["kill_inside_checkpoint_of_restored_run"] = 1
    if "old-only" in site or "torn-temp" in site:
        res["probes"]["second_kill_after_resume_from_old"] = 1
    res["sample"] = {"scenario": job["name"], "kills": world["plan"], "class": site, "exits": exits}
    return res


# ----------------------------------------------------------------------------
def body(r):
    seed, tier = r.seed, r.tier
    if r.replay:
        import json

        with open(r.replay) as f:
            rep = json.load(f)
        job = {"world": rep["world"], "name": "replay", "cls": "replay"}
        res = kill_job(job)
        r.absorb(res)
        return r.finish("replay of one recorded kill point")
    matrix = scenario_matrix(seed, tier)
    rec_jobs = [{"name": n, "world": base_world(seed, scn), "weights_snapshots": tier == "thorough"}
                for n, scn in matrix]
    recs = r.map(record_job, rec_jobs, "record")
    kjobs = []
    syn = []
    rr = R.stream(seed, "c11-points")
    for rec, rj in zip(recs, rec_jobs):
        if rec.get("harness_error"):
            raise runner.Harness(str(rec["harness_error"])[:3000])
        if not rec["finished"]:
            if "swarm" in rec["name"]:
                # a swarm scenario that does not complete uninterrupted has no checkpoint trace to enumerate
                r.notes.append(f"recording pass of {rec['name']} did not finish ({rec['exits']}); scenario skipped")
                r.count(r.probes, "recording_pass_skipped")
                continue
            raise runner.Harness(f"recording pass of {rec['name']} did not finish: {rec['exits']} {rec['aborted']}")
        r.runs += 1
        r.incarnations += 1
        r.sim_time += rec["sim_time"]
        for p, n in rec["probes"].items():
            r.count(r.probes, p, n)
        for (e, L, cls) in kill_points(rec, tier, rr):
            w = dict(rj["world"])
            w.pop("weights_snapshots", None)
            w["plan"] = [{"inc": 0, "kind": "kill_fs", "event": e, "prefix": L}]
            kjobs.append({"name": rec["name"], "cls": cls, "world": w})
        if tier == "thorough" and rec.get("dir"):
            lab = os.path.join(rec["dir"], "lab")
            wins = weights_windows(rec["fs"])
            for win in wins[:2] + wins[-1:]:
                cr = [e for e in win if e["op"] == "create"]
                wr = [e for e in win if e["op"] == "write"]
                if not cr or not wr:
                    continue
                snap = os.path.join(lab, f"wsnap_i0_e{cr[0]['e']}")
                byts = os.path.join(lab, f"weights_e{cr[0]['e']}.bin")
                if not (os.path.isdir(snap) and os.path.exists(byts)):
                    continue
                n = wr[0]["nbytes"]
                # every byte prefix for the first save of the two base scenarios; elsewhere every k-th prefix plus
                # each recorded write boundary and its neighbours (a whole tier must finish in tens of minutes)
                if rec["name"] in ("ns-iter", "ins-keep") and win is wins[0]:
                    prefixes = range(0, n)
                else:
                    ps = set(range(0, n, max(1, n // 400)))
                    for b in wr[0].get("bounds") or []:
                        ps.update(x for x in (b - 1, b, b + 1) if 0 <= x < n)
                    prefixes = sorted(ps)
                for L in prefixes:
                    syn.append({"name": rec["name"], "world": {k: v for k, v in rj["world"].items()
                                                               if k != "weights_snapshots"},
                                "snapshot": snap, "bytes": byts, "path": cr[0]["path"], "L": L,
                                "event": wr[0]["e"], "pclass": path_class(cr[0])})
    # kill while the signal handler is writing its checkpoint (SIGTERM, then SIGKILL after the grace period)
    for rec, rj in zip(recs, rec_jobs):
        if rj["world"]["scenario"]["sampler"] != "ns" or not rec.get("finished"):
            continue
        steps = rec.get("steps") or 0
        if steps < 2000:
            continue
        for frac in ((0.3, 0.6, 0.9) if tier == "thorough" else (0.6,)):
            for off, L in ((0, None), (1, None), (2, 0), (2, 1), (2, 4000), (2, None), (3, None), (4, None)):
                w = dict(rj["world"])
                w.pop("weights_snapshots", None)
                w["optional_kill"] = True
                w["plan"] = [{"inc": 0, "kind": "signal", "signum": 15, "line_event": int(steps * frac)},
                             {"inc": 0, "kind": "kill_fs_after_signal", "offset": off, "prefix": L}]
                kjobs.append({"name": rec["name"], "cls": f"handler-ckpt:+{off}{':torn' if L is not None else ''}",
                              "world": w})
    # determinism self-test: first two kill jobs twice
    st = kjobs[:2]
    a = r.map(kill_job, st, "selftest-a")
    b = r.map(kill_job, st, "selftest-b")
    for x, y in zip(a, b):
        r.selftest["pairs"] += 1
        r.selftest["equal"] += int(x["digest"] == y["digest"])
    if r.selftest["pairs"] != r.selftest["equal"]:
        raise runner.Harness("determinism self-test failed: same world, different event log")
    for res in r.map(kill_job, kjobs, "kill"):
        r.absorb(res)
    # second generation: kill again inside the first checkpoint written by the restored run
    cjobs = []
    for rec, rj in zip(recs, rec_jobs):
        if not rec.get("finished") or (tier != "thorough" and "swarm" in rec["name"]):
            continue
        for (e, L, cls) in chain_first_kills(rec):
            w = {k: v for k, v in rj["world"].items() if k != "weights_snapshots"}
            w["plan"] = [{"inc": 0, "kind": "kill_fs", "event": e, "prefix": L}]
            w["max_incarnations"] = 5
            cjobs.append({"name": rec["name"], "cls": cls, "world": w})
    c2 = []
    for crec in r.map(chain_record_job, cjobs, "chain-record"):
        if crec["exits"][:1] != [137]:
            raise runner.Harness(f"first kill of a chain did not fire: {crec['name']} {crec['cls']} {crec['exits']}")
        for (e, L, cls) in chain_points(crec, tier):
            w = dict(crec["world"])
            w["plan"] = list(w["plan"]) + [{"inc": 1, "kind": "kill_fs", "event": e, "prefix": L}]
            c2.append({"name": crec["name"], "cls": crec["cls"] + "/" + cls, "world": w})
    for res in r.map(chain_kill_job, c2, "kill-chain"):
        r.absorb(res)
    if syn:
        for res in r.map(synthetic_weights_job, syn, "weights-prefixes"):
            r.absorb(res)
        import shutil

        for rec in recs:
            if rec.get("dir"):
                shutil.rmtree(rec["dir"], ignore_errors=True)
    return r.finish(
        rule=("fault enumeration: for each scenario of a fixed matrix, every fs event of the selected checkpoints "
              "(quick: first, second, middle, last two; thorough: all) and of the weights saves is a kill point "
              "(kill after the event, and inside each write at prefix lengths {0,1,1/4,1/2,3/4,len-1}; thorough: "
              "pickle every ~1/40 of the file; weights via synthetic torn states: every byte for the first save of the two "
              "base scenarios, every ~1/400 plus each write boundary +-1 elsewhere). A case is "
              "distinct by (scenario, op kind, path class, torn?, fresh-or-resumed); all are non-trivial "
              "(the kill lands inside an in-flight checkpoint or weights save). Second generation: after a first kill "
              "that leaves only the .old file, a torn temp beside it, or a completed checkpoint, the restored run is "
              "killed again at every fs event (and inside the write) of the first checkpoint it writes; the second "
              "restore must load the last checkpoint completed in either incarnation."),
        extra={"scenarios": [n for n, _ in matrix], "kill_points": len(kjobs), "synthetic_weight_prefixes": len(syn),
               "second_generation_kill_points": len(c2)},
        exhaustive=True,
        assumptions=["process-kill fault model (data handed to the kernel survives); no power loss",
                     "torch.save modelled as one sequential write of the serialised bytes",
                     "complete for the enumerated scenarios, sampled over scenarios"],
    )


if __name__ == "__main__":
    runner.main(PROP, "fault_enumeration", body)
