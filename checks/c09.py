"""C09 — proposal pools never leave the prior (safety clauses; DESIGN.md 5.9)."""
import os
import sys

sys.path.insert(0, os.path.dirname(os.path.abspath(__file__)))
sys.path.insert(0, os.path.dirname(os.path.dirname(os.path.abspath(__file__))))

import swarm  # noqa: E402
from sim import rng as R  # noqa: E402
from sim import runner  # noqa: E402

PROP = "C09"
ORACLES = ("C09-", "VAL-")


def body(r):
    if r.replay:
        return swarm.replay_world(r, PROP, oracles=ORACLES)
    n_ns, n_ins = (90, 40) if r.tier == "quick" else (2600, 1200)
    rr = R.stream(r.seed, "c09-plans")
    worlds = [swarm.build_world(r.seed, 40000 + i, "ns", ["ns"], rr, p_fault=0.35) for i in range(n_ns)]
    worlds += [swarm.build_world(r.seed, 50000 + i, "ins", ["ins"], rr, p_fault=0.35) for i in range(n_ins)]
    # targeted corner: rejection sampling in the rescaled space (every parameter has a prime prior) on a model
    # whose second parameter is unconstrained, so the data-dependent bounds move (and grow) between trainings
    from sim import scenarios as S

    for i in range(8 if r.tier == "quick" else 200):
        scn = S.simple_ns(r.seed, 45000 + i, nlive=rr.choice([20, 30, 40]), maximum_uninformed=15,
                          training_frequency=rr.choice([5, 8, 12]), cooldown=4,
                          reparameterisations={"rescaletobounds": {"parameters": ["x0", "x1"], "update_bounds": True,
                                                                   "prior": "uniform"}})
        scn["model"] = {"name": "gauss_x0only", "dims": 2}
        worlds.append({"seed": R.derive(r.seed, "c09-prime", i), "scenario": scn, "monitors": ["ns"], "plan": [],
                       "budget_steps": swarm.BUDGET_STEPS})
    swarm.run_swarm(r, PROP, worlds, oracles=ORACLES)
    return r.finish(
        minimise=swarm.make_minimiser(PROP, (), ORACLES),
        rule=("seeded swarm of runs of both samplers (every proposal class available here, latent priors, "
              "radius/volume options, weight accumulation, log-q truncation, reparameterisations, pool and draw "
              "sizes, uniform and non-uniform priors), a third with kill-and-resume cycles. After every populate: "
              "bounds, finite logP equal to the model's, logL equal to the model's, pool size, indices a "
              "permutation; every draw hands out exactly one not-yet-used index; latent radius <= r*fuzz for "
              "radially truncated priors at backward_pass; the model seam asserts on every raw likelihood call "
              "that all points are inside the prior support. distinct = (config signature, faults, incarnations); "
              "non-trivial = run finished. The distributional clause of C09 is NOT decided here."),
        assumptions=["safety clauses only: 'pool distributed as the prior restricted to the contour' needs "
                     "statistical testing and is out of this technique family"],
    )


if __name__ == "__main__":
    runner.main(PROP, "exploration", body)
