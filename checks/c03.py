"""C03 — every INS sample carries the exact meta-proposal density and weight (DESIGN.md 5.3)."""
import os
import sys

sys.path.insert(0, os.path.dirname(os.path.abspath(__file__)))
sys.path.insert(0, os.path.dirname(os.path.dirname(os.path.abspath(__file__))))

import swarm  # noqa: E402
from sim import rng as R  # noqa: E402
from sim import runner  # noqa: E402

PROP = "C03"
ORACLES = ("INS-DENS",)


def body(r):
    if r.replay:
        return swarm.replay_world(r, PROP, oracles=ORACLES)
    n = 100 if r.tier == "quick" else 3000
    rr = R.stream(r.seed, "c03-plans")
    worlds = [swarm.build_world(r.seed, 60000 + i, "ins", ["ins"], rr, p_fault=0.6, max_cycles=3) for i in range(n)]
    swarm.run_swarm(r, PROP, worlds, oracles=ORACLES)
    return r.finish(
        minimise=swarm.make_minimiser(PROP, (), ORACLES),
        rule=("seeded swarm of complete importance-sampler runs (logit / no reparameterisation, strict / soft "
              "threshold, replace_all, constant / variable draws, with / without the i.i.d. set, save_log_q on/off, "
              "flow types), 60% with 1-3 kill-and-resume cycles. After update_evidence in every iteration, after "
              "finalise and immediately after every resume, for every sample of the training and i.i.d. stores: "
              "stored per-proposal log-densities vs the saved flows re-evaluated (nessai's route and an independent "
              "evaluation with the logit Jacobian), logQ = log of the mixture with weights = fraction of samples "
              "per proposal (sum 1), logW = logU - logQ, unit hypercube, logL = model at the physical point. "
              "distinct = (config signature, faults fired, incarnations); non-trivial = run finished."),
        assumptions=["float32 flows: densities compared with atol 1e-3 / rtol 1e-4; copies and counts exactly"],
    )


if __name__ == "__main__":
    runner.main(PROP, "exploration", body)
