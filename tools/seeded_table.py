#!/usr/bin/env python3
"""Print a markdown table of /verif/seeded/*/meta.json."""
import glob, json, os
HERE = os.path.dirname(os.path.dirname(os.path.abspath(__file__)))
rows = []
for m in sorted(glob.glob(os.path.join(HERE, "seeded", "*", "meta.json"))):
    d = json.load(open(m))
    needs = (d.get("needs_to_manifest") or "").strip().splitlines()
    first = next((ln.strip("# ").strip() for ln in needs if ln.strip()), "")
    hist = d.get("checks_history") or {c: [v] for c, v in d.get("checks_run", {}).items()}
    ran = ", ".join(f"{c}({h[-1].get('tier', 'quick')}):{'caught' if h[-1]['caught'] else 'missed'}"
                    + (f" [missed before strengthening x{sum(1 for e in h[:-1] if not e['caught'])}]"
                       if h[-1]['caught'] and any(not e['caught'] for e in h[:-1]) else "")
                    for c, h in sorted(hist.items()))
    rows.append(f"| {d['id']} | {d['property']} | {first[:110]} | {'yes' if d.get('confirmed') else 'NO'} | {d.get('tests_tail','')[:28]} | {ran} |")
print("| id | property | change (first line of the author's notes) | demo confirmed | unit tests with change | checks run against the change (last result per check) |")
print("|---|---|---|---|---|---|")
print("\n".join(rows))
