#!/usr/bin/env python3
"""Print a markdown table of /verif/seeded/*/meta.json."""
import glob, json, os
HERE = os.path.dirname(os.path.dirname(os.path.abspath(__file__)))
rows = []
for m in sorted(glob.glob(os.path.join(HERE, "seeded", "*", "meta.json"))):
    d = json.load(open(m))
    needs = (d.get("needs_to_manifest") or "").strip().splitlines()
    first = next((ln.strip("# ").strip() for ln in needs if ln.strip()), "")
    ran = ", ".join(f"{c}:{'caught' if v['caught'] else 'missed'}" for c, v in d.get("checks_run", {}).items())
    rows.append(f"| {d['id']} | {d['property']} | {first[:110]} | {'yes' if d.get('confirmed') else 'NO'} | {d.get('tests_tail','')[:28]} | {ran} |")
print("| id | property | change (first line of the author's notes) | demo confirmed | unit tests with change | checks run (quick tier) |")
print("|---|---|---|---|---|---|")
print("\n".join(rows))
