#!/venv/bin/python
"""Confirm a seeded change and try the checks against it.

usage: seed_eval.py <source dir> <index> <seeded id> <property> <check>[,<check>...] [--tests]
Creates a scratch worktree of /repo outside /repo and /verif, confirms the demonstration (passes on the
clean tree, fails with the change), optionally runs the unit tests with the change, runs the quick tier of
the named checks against the changed tree (VERIF_REPO), writes /verif/seeded/<id>/ and removes the worktree.
"""
import json
import os
import shutil
import subprocess
import sys
import tempfile
import time

VERIF = os.path.dirname(os.path.dirname(os.path.abspath(__file__)))


def run(cmd, env=None, cwd=None, timeout=3600):
    t = time.time()
    p = subprocess.run(cmd, capture_output=True, text=True, env=env, cwd=cwd, timeout=timeout)
    return p.returncode, p.stdout, p.stderr, time.time() - t


def main():
    src, idx, sid, prop, checks = sys.argv[1:6]
    do_tests = "--tests" in sys.argv
    tier = "thorough" if "--thorough" in sys.argv else "quick"
    checks = [c for c in checks.split(",") if c]
    patch = os.path.join(src, f"mutation_{idx}.diff")
    demo = os.path.join(src, f"demo_{idx}.py")
    notes = os.path.join(src, f"notes_{idx}.md")
    tmp = tempfile.mkdtemp(prefix=f"seed-{sid}-", dir="/var/tmp")
    wt = os.path.join(tmp, "repo")
    meta = {"id": sid, "property": prop, "source": f"sub-agent worktree {src}, change {idx}"}
    try:
        subprocess.run(["git", "-C", "/repo", "worktree", "add", "--detach", "-q", wt, "HEAD"], check=True)
        env = dict(os.environ, PYTHONPATH=wt, OMP_NUM_THREADS="1", TQDM_DISABLE="1", MPLBACKEND="Agg")
        work = os.path.join(tmp, "work")
        os.makedirs(work)
        # run a copy: python puts the script's own directory first on sys.path
        shutil.copy(demo, os.path.join(tmp, "demo.py"))
        demo_run = os.path.join(tmp, "demo.py")
        rc0, out0, err0, t0 = run(["/venv/bin/python", demo_run], env=env, cwd=work, timeout=900)
        ap = subprocess.run(["git", "-C", wt, "apply", patch], capture_output=True, text=True)
        meta["patch_applies"] = ap.returncode == 0
        shutil.rmtree(work); os.makedirs(work)
        rc1, out1, err1, t1 = run(["/venv/bin/python", demo_run], env=env, cwd=work, timeout=900)
        meta["demo_clean_exit"] = rc0
        meta["demo_mutated_exit"] = rc1
        meta["demo_mutated_tail"] = (out1 + err1)[-600:]
        meta["confirmed"] = bool(ap.returncode == 0 and rc0 == 0 and rc1 != 0)
        tests = None
        if do_tests:
            tests = subprocess.Popen(["/venv/bin/python", "-m", "pytest", "-q", "-p", "no:cacheprovider", "--timeout=900",
                                      "--deselect", "tests/test_plot.py::test_corner_plot_w_include_and_truths",
                                      "-x", "tests"], env=env, cwd=wt, stdout=subprocess.PIPE, stderr=subprocess.STDOUT,
                                     text=True)
        results = {}
        for c in checks:
            cenv = dict(os.environ, VERIF_REPO=wt, VERIF_EVIDENCE_DIR=os.path.join(tmp, "ev"),
                        VERIF_REPLAY_DIR=os.path.join(tmp, "rp"))
            cenv.pop("NESSAI_SIM_BOOT", None)
            rc, out, err, tc = run([os.path.join(VERIF, "bin", "check"), c, "--tier", tier], env=cenv, timeout=3600)
            lines = [ln for ln in out.splitlines() if ln.startswith("VIOLATION") or ln.strip().startswith("oracle=")
                     or ln.startswith("HARNESS")]
            results[c] = {"exit": rc, "caught": rc == 1, "tier": tier, "seconds": round(tc, 1),
                          "evidence": [ln.strip()[:300] for ln in lines[:6]]}
        if tests is not None:
            out, _ = tests.communicate(timeout=3600)
            meta["tests_exit"] = tests.returncode
            tail = [ln for ln in out.strip().splitlines() if "passed" in ln or "failed" in ln]
            meta["tests_tail"] = tail[-1] if tail else ""
            for f in ("model.pt", "model.pt.old", "model.pt.temp"):
                try:
                    os.unlink(os.path.join(wt, f))
                except OSError:
                    pass
        prev = {}
        try:
            with open(os.path.join(VERIF, "seeded", sid, "meta.json")) as f:
                prev = json.load(f).get("checks_history", {})
        except Exception:
            pass
        for c, v in results.items():
            prev.setdefault(c, []).append(v)
        meta["checks_history"] = prev
        meta["checks_run"] = results
        meta["caught_by"] = sorted({c for c, hist in prev.items() if hist and hist[-1]["caught"]})
        meta["what_ran"] = ("demo on clean scratch worktree and with the change applied"
                            + ("; full unit-test suite with the change" if do_tests else "")
                            + f"; {tier} tier of " + ", ".join(checks) + " with VERIF_REPO=<scratch worktree>")
        dst = os.path.join(VERIF, "seeded", sid)
        os.makedirs(dst, exist_ok=True)
        shutil.copy(patch, os.path.join(dst, "patch.diff"))
        shutil.copy(demo, os.path.join(dst, "demo.py"))
        if os.path.exists(notes):
            shutil.copy(notes, os.path.join(dst, "notes.md"))
            with open(notes) as f:
                meta["needs_to_manifest"] = f.read()[:1500]
        with open(os.path.join(dst, "meta.json"), "w") as f:
            json.dump(meta, f, indent=1)
        print(json.dumps({k: meta[k] for k in ("id", "confirmed", "caught_by", "demo_clean_exit", "demo_mutated_exit")}),
              meta.get("tests_tail", ""))
    finally:
        subprocess.run(["git", "-C", "/repo", "worktree", "remove", "--force", wt], capture_output=True)
        shutil.rmtree(tmp, ignore_errors=True)


if __name__ == "__main__":
    main()
