#!/bin/sh
# run every claimed check's quick tier under several VERIF_SEED values; print one line per (seed, check)
cd "$(dirname "$0")/.." || exit 2
for s in "$@"; do
  for c in C01 C03 C04 C05 C09 C10 C11 C12 C13 C14 C15 C17 C19 C20; do
    out=$(VERIF_SEED=$s VERIF_EVIDENCE_DIR=/tmp/ms-ev VERIF_REPLAY_DIR=/tmp/ms-rp timeout 1800 bin/check $c --tier quick 2>&1)
    code=$?
    echo "seed=$s check=$c exit=$code $(echo "$out" | grep -E "^\[$c\] tier" | cut -c1-160)"
    if [ $code -ne 0 ]; then echo "$out" | grep -E "^VIOLATION|oracle=|HARNESS" | cut -c1-700 | head -8; fi
  done
done
