#!/bin/sh
# run the thorough tier of every claimed check (evidence and replays go to scratch dirs unless VERIF_COMMIT_EVIDENCE=1)
cd "$(dirname "$0")/.." || exit 2
if [ "$VERIF_COMMIT_EVIDENCE" != "1" ]; then export VERIF_EVIDENCE_DIR=/tmp/th-ev VERIF_REPLAY_DIR=/tmp/th-rp; fi
for c in ${@:-C10 C14 C20 C04 C17 C03 C19 C05 C09 C01 C11 C12 C15 C13}; do
  start=$(date +%s)
  out=$(timeout 7200 bin/check $c --tier thorough 2>&1)
  code=$?
  echo "check=$c exit=$code secs=$(( $(date +%s) - start )) $(echo "$out" | grep -E "^\[$c\] tier" | cut -c1-170)"
  if [ $code -ne 0 ]; then echo "$out" | grep -E "^VIOLATION|oracle=|HARNESS" | cut -c1-900 | head -12; fi
done
