#!/bin/sh
# usage: tools/try_mutation.sh <patch.diff> <check id> [<check id> ...]
# Applies a seeded change to /repo, runs the quick tier of the given checks, and undoes it straight afterwards.
patch="$1"; shift
cd /verif || exit 2
git -C /repo diff --quiet || { echo "/repo has uncommitted changes"; exit 2; }
git -C /repo apply "$patch" || { echo "patch does not apply"; exit 2; }
trap 'git -C /repo checkout -- . ; rm -f /repo/model.pt /repo/model.pt.old' EXIT INT TERM
for id in "$@"; do
  echo "=== $id against $(basename "$patch")"
  VERIF_EVIDENCE_DIR=/tmp/mut-evidence VERIF_REPLAY_DIR=/tmp/mut-replays timeout 1800 bin/check "$id" --tier quick 2>&1 | grep -v "^WARNING" | grep -E "^VIOLATION|^KNOWN|^HARNESS|oracle=|tier=quick" | cut -c1-400
done
