#!/venv/bin/python
"""Generate /verif/MANIFEST.json from the table below and validate it."""
import json, os, sys
HERE = os.path.dirname(os.path.dirname(os.path.abspath(__file__)))

SIM_NOTE = ("Samples scenarios, not a proof. Tiny flows (1-2 blocks, 2-8 neurons, 1-5 epochs) and zoo models; virtual clock, "
            "seeded interpreter entropy, line-event signal delivery, torch zip writer modelled as a sequential write, h5py as one "
            "opaque event, multiprocessing.Pool replaced by the simulated pool except where labelled.")

CHECKS = {
 "C01": dict(level="exploration", ref="5.1",
   text="Seeded swarm of complete standard-sampler runs (proposal classes, latent priors, reparameterisations, flow types, checkpoint triggers, pools), half with 1-3 kill-and-resume cycles; a live-set monitor checks exact replacement semantics, ordering, insertion index and dead-point bookkeeping after every consume_sample, after populate_live_points, after finalise and right after every resume.",
   note=SIM_NOTE, technique="deterministic simulation: in-run invariant monitor over seeded runs with kill/resume fault plans"),
 "C03": dict(level="exploration", ref="5.3",
   text="Seeded swarm of importance-sampler runs, 60% with kill-and-resume cycles; after every iteration, after finalise and immediately after each resume the stored per-proposal densities are re-evaluated against the saved flows (nessai's route and an independent one), the mixture weights against sample fractions, logW = logU - logQ, unit hypercube membership and logL against the model.",
   note=SIM_NOTE + " float32 flows: densities compared with atol 1e-3 / rtol 1e-4.", technique="deterministic simulation: density-table monitor in simulated INS runs across resume"),
 "C04": dict(level="exploration", ref="5.4",
   text="Store-level operation-and-restart histories (Hypothesis stateful machine, four strict x replace_all modes, 5-value likelihood alphabet, restart that drops and re-derives the density table) against a list reference model after every operation; plus the same invariants after every iteration of real simulated INS runs.",
   note="Sequential-history end of the family: no scheduler nondeterminism inside the store; the history generator plays the environment and the only fault is the restart.", technique="deterministic simulation: seeded operation+restart histories vs executable reference model (Hypothesis stateful)"),
 "C05": dict(level="exploration", ref="5.5",
   text="End-of-run oracle over seeded runs of both samplers, uninterrupted and resumed up to 4 times: evidence, error and posterior weights recomputed from the returned samples alone (independent reimplementation + nessai's one-pass route), sample counts, order, model values, birth likelihoods, result-dictionary consistency.",
   note=SIM_NOTE, technique="deterministic simulation: result oracle over seeded runs with kill/resume fault plans"),
 "C09": dict(level="exploration", ref="5.9",
   text="Safety clauses only: after every populate of every proposal class in simulated runs (bounds, finite logP equal to the model's, logL equal to the model's, pool size, each index handed out once, latent radius for truncated priors) and an assertion at the model seam on every raw likelihood call of either sampler that all points lie in the prior support. The distributional clause is NOT decided.",
   note=SIM_NOTE + " 'Pool distributed as the prior restricted to the contour' needs statistical testing and is out of this technique family.", technique="deterministic simulation: pool / model-seam monitors in seeded runs"),
 "C10": dict(level="exploration", ref="5.10",
   text="Model.batch_evaluate_* driven through a simulated pool: exhaustive grid (batch 0..12 x chunk sizes x pool sizes 0..4 x four model kinds x physical/unit-hypercube) with seeded task schedules per pooled cell (all permutations for <=4 tasks), a Hypothesis stateful machine over call sequences with pool reconfiguration, real fork pools in the thorough tier. Values bitwise equal to pointwise evaluation, arguments seen exactly once, counter += N once.",
   note="Simulated pool implements Pool.map semantics (results by task index); schedules sampled, grid enumerated.", technique="deterministic simulation: seeded task schedules of a cooperative pool + exhaustive small grid"),
 "C11": dict(level="fault_enumeration", ref="5.11",
   text="Every fs event of the selected checkpoints and weights saves of a matrix of scenarios is a kill point (after the op, and inside each write at byte prefixes; thorough: every byte of the first weights file of the base scenarios, every ~1/400 plus write boundaries elsewhere); second generation: after a first kill that leaves only .old / a torn temp / a completed checkpoint, the restored run is killed again at every fs event of its first checkpoint; after each kill a fresh process resumes and must construct, hold exactly the last completed checkpoint (digest equality), start afresh if none completed, and run on to a result passing the in-run and result invariants. Complete for process-kill faults of the enumerated scenarios, sampled over scenarios.",
   note="Process-kill model (data handed to the kernel survives; no power loss). " + SIM_NOTE, technique="deterministic simulation: fs-event trace recording + exhaustive kill-point enumeration with restart in a fresh process"),
 "C12": dict(level="exploration", ref="5.12",
   text="Kill/resume chains of length 1-5 for both samplers on a virtual clock (kills at likelihood calls and fs events incl. torn writes, signals at line events, and targeted signals that arrive while a checkpoint is being written): digest of the sampler when each checkpoint was written vs after FlowSampler(resume=True) in a fresh process (field by field); likelihood-evaluation counter = value resumed from + points counted at the model API; sampling/training/likelihood times inside a two-sided band that excludes downtime and double counting; resumed runs must complete and pass the run and result invariants.",
   note=SIM_NOTE, technique="deterministic simulation: kill/resume chains with virtual clock, state digests and evaluation accounting"),
 "C13": dict(level="fault_enumeration", ref="5.13",
   text="The signal handler nessai registered is invoked before line events of a recorded run: every line event of ordinary iterations, of finalise and of checkpoint windows; first/second/last (+ seeded sample) occurrence of each distinct source line inside training/population windows; SIGTERM (thorough: also SIGINT, SIGALRM). Exit code, resumability in a fresh process, dead/live bookkeeping and result invariants; INS: last iteration-boundary checkpoint byte-identical.",
   note="Line events are a superset of CPython 3.12 delivery points; repeated loop bodies are sampled, not proven equivalent. " + SIM_NOTE, technique="deterministic simulation: line-event pre-emption with signal injection, enumerated over recorded traces"),
 "C14": dict(level="exploration", ref="5.14",
   text="For each seeded scenario of both samplers a reference run, then variants that must give a byte-identical digest of samples / evidence / weights / insertion indices / evaluation count: another process, a fresh interpreter under another PYTHONHASHSEED, simulated pools of 1-4 workers under seeded task schedules, chunk sizes, parallel prior, real fork pools (thorough).",
   note=SIM_NOTE, technique="deterministic simulation: same scenario under different schedules / processes / hash seeds, digest equality"),
 "C15": dict(level="exploration", ref="5.15",
   text="Per-iteration stopping-rule monitor for both samplers (compared quantity recomputed from the state / samples, first-allowed-stop check, history values) and repeated run / resume-after-finish histories (two re-runs in process, two fresh incarnations from the final checkpoint) with a likelihood-call counter at the model seam.",
   note=SIM_NOTE + " Idempotence judged for converged runs only.", technique="deterministic simulation: stopping-rule monitor + rerun / resume-after-finish histories with a call-counting model seam"),
 "C17": dict(level="exploration", ref="5.17",
   text="In-run clauses only: at every iteration of simulated INS runs (swarm plus targeted worlds with min_remove of a quarter to a half of nlive) determine_log_likelihood_threshold returns (never raises) a live sample's likelihood, min_samples / min_remove / max_samples clamps hold, proposals train on >= min_samples, and the weighted quantile on each live set is monotone, in range and equals Harrell-Davis for equal weights.",
   note=SIM_NOTE + " Arbitrary weight vectors that no run reaches are out of family.", technique="deterministic simulation: threshold monitor in seeded INS runs"),
 "C19": dict(level="exploration", ref="5.19",
   text="Real-run clause only: at the end of simulated runs (both samplers, hdf5/h5/json, resumed and capped histories, non-serialisable kwargs) the result file is read back and compared field by field with the in-memory results; config.json must parse.",
   note=SIM_NOTE + " Generated dictionaries for the encoders are out of family.", technique="deterministic simulation: read-back oracle at the end of seeded runs incl. resumed histories"),
 "C20": dict(level="exploration", ref="5.20",
   text="Table of documented algorithmic options, each value alone and in a seeded pairwise covering array; verdict per run from the model seam and the step counter: rejected before the first sampling-phase likelihood evaluation, completed with result invariants, or violation (exception after sampling started / finished, or step budget exhausted = bounded liveness in simulated steps).",
   note=SIM_NOTE + " Known findings (redraw/bootstrap/train_final_flow/svd) listed in known_findings.json.", technique="deterministic simulation: option swarm with step-budget liveness and model-seam phase detection"),
}

NA = {
 "C02": "pure numeric function of a likelihood sequence and live-count schedule; no schedule, clock, fault, restart or interleaving to simulate (its run-time shadow is checked inside C05)",
 "C06": "statistical calibration over independent seeds (Monte-Carlo hypothesis testing), not search over schedules and faults",
 "C07": "pure bijection / Jacobian algebra of (configuration, point); no concurrency, time or I/O",
 "C08": "pure density algebra of flows as a function of (weights, input); no concurrency, time or I/O",
 "C16": "pure function of a weight vector plus frequency statistics of its draws; no schedule or fault",
 "C18": "pure conversions and a sequentially driven registry with no fault, restart or interleaving in the property",
}

ALL = [f"C{i:02d}" for i in range(1, 21)]

def main():
    checks = []
    for pid in ALL:
        if pid not in CHECKS:
            continue
        c = CHECKS[pid]
        checks.append({
            "property_id": pid,
            "quick_cmd": f"bin/check {pid} --tier quick",
            "thorough_cmd": f"bin/check {pid} --tier thorough",
            "evidence_file": f"/verif/evidence/{pid}.json",
            "replay_cmd_template": f"bin/check {pid} --replay {{path}}",
            "engine": "nessai-sim",
            "level_claimed": {"category": c["level"], "text": c["text"], "design_ref": f"DESIGN.md section {c['ref']}"},
            "level_note": c["note"],
            "technique": c["technique"],
        })
    na = [{"property_id": p, "reason": r} for p, r in NA.items()]
    for pid in ALL:
        if pid not in CHECKS and pid not in NA:
            na.append({"property_id": pid, "reason": "check not built yet in this revision (planned: see DESIGN.md section 5)"})
    na.sort(key=lambda x: x["property_id"])
    m = {
        "version": 1,
        "setup_cmd": "/venv/bin/python -c 'import hypothesis' 2>/dev/null || /venv/bin/pip install --no-index --find-links /opt/veriftools/wheels hypothesis",
        "hooks": {
            "guard": "NESSAI_VERIF",
            "enable": "no source hooks are needed: every seam is a module attribute, public keyword argument or interpreter hook patched by /verif/sim at run time in the forked child; nessai is an editable install of /repo so checks always run the current working tree",
            "baseline_off_cmd": "cd /repo && /venv/bin/python -m pytest -ra -q -p no:cacheprovider --timeout=900 --continue-on-collection-errors",
            "source_commits": [],
            "add_only": True,
        },
        "engines": [{"name": "nessai-sim", "path": "/verif/sim", "serves_properties": sorted(CHECKS),
                     "kind_free_text": "deterministic simulator with fault injection written for this task: forked incarnations of the whole sampler run, virtual clock, simulated disk with kill points, line-event signal injection, cooperative pool, model seam, seeded swarm scenarios, replay files"}],
        "checks": checks,
        "not_applicable": na,
        "notes": "All checks: cwd=/verif, honour VERIF_SEED / VERIF_TIER / VERIF_JOBS; exit 0 held, 1 VIOLATION, 2 harness error. Known findings and fixed defects: /verif/known_findings.json (11 fix: commits in /repo). C09, C17, C19 are claimed for their in-run / safety clauses only (see level_note).",
    }
    with open(os.path.join(HERE, "MANIFEST.json"), "w") as f:
        json.dump(m, f, indent=1)
    try:
        import jsonschema
        jsonschema.validate(m, json.load(open("/root/.vp/MANIFEST.schema.json")))
        print("MANIFEST valid;", len(checks), "checks,", len(na), "not applicable")
    except ImportError:
        print("jsonschema not available; not validated")

if __name__ == "__main__":
    main()
