#!/venv/bin/python
"""Generate /verif/MANIFEST.json from the table below and validate it."""
import json, os, sys
HERE = os.path.dirname(os.path.dirname(os.path.abspath(__file__)))

CHECKS = {
 "C11": dict(level="fault_enumeration", ref="5.11",
   text="Every fs event of the selected checkpoints and weights saves of a matrix of scenarios is a kill point (after the op, and inside each write at byte prefixes); after each kill a fresh process resumes and must construct, hold exactly the last completed checkpoint (digest equality), start afresh if none completed, and run on to a result that passes the in-run and result invariants. Complete for process-kill faults of the enumerated scenarios, sampled over scenarios.",
   note="Process-kill model (data handed to the kernel survives; no power loss). torch's zip writer is modelled as one sequential write of the serialised bytes; h5py result files are one opaque event. Tiny flows and models.",
   technique="deterministic simulation: fs-event trace recording + exhaustive kill-point enumeration with restart in a fresh process"),
}

NA = {
 "C02": "pure numeric function of a likelihood sequence and live-count schedule; no schedule, clock, fault, restart or interleaving to simulate (its run-time shadow is checked inside C05)",
 "C06": "statistical calibration over independent seeds (Monte-Carlo hypothesis testing), not search over schedules and faults",
 "C07": "pure bijection / Jacobian algebra of (configuration, point); no concurrency, time or I/O",
 "C08": "pure density algebra of flows as a function of (weights, input); no concurrency, time or I/O",
 "C16": "pure function of a weight vector plus frequency statistics of its draws; no schedule or fault",
 "C18": "pure conversions and a sequentially driven registry with no fault, restart or interleaving in the property",
}

ALL = [f"C{i:02d}" for i in range(1, 21)]

def main():
    checks = []
    for pid in ALL:
        if pid not in CHECKS:
            continue
        c = CHECKS[pid]
        checks.append({
            "property_id": pid,
            "quick_cmd": f"bin/check {pid} --tier quick",
            "thorough_cmd": f"bin/check {pid} --tier thorough",
            "evidence_file": f"/verif/evidence/{pid}.json",
            "replay_cmd_template": f"bin/check {pid} --replay {{path}}",
            "engine": "nessai-sim",
            "level_claimed": {"category": c["level"], "text": c["text"], "design_ref": f"DESIGN.md section {c['ref']}"},
            "level_note": c["note"],
            "technique": c["technique"],
        })
    na = [{"property_id": p, "reason": r} for p, r in NA.items()]
    for pid in ALL:
        if pid not in CHECKS and pid not in NA:
            na.append({"property_id": pid, "reason": "check not built yet in this revision (planned: see DESIGN.md section 5)"})
    na.sort(key=lambda x: x["property_id"])
    m = {
        "version": 1,
        "setup_cmd": "/venv/bin/python -c 'import hypothesis' 2>/dev/null || /venv/bin/pip install --no-index --find-links /opt/veriftools/wheels hypothesis",
        "hooks": {
            "guard": "NESSAI_VERIF",
            "enable": "no source hooks are needed: every seam is a module attribute, public keyword argument or interpreter hook patched by /verif/sim at run time in the forked child; nessai is an editable install of /repo so checks always run the current working tree",
            "baseline_off_cmd": "cd /repo && /venv/bin/python -m pytest -ra -q -p no:cacheprovider --timeout=900 --continue-on-collection-errors",
            "source_commits": [],
            "add_only": True,
        },
        "engines": [{"name": "nessai-sim", "path": "/verif/sim", "serves_properties": sorted(CHECKS),
                     "kind_free_text": "deterministic simulator with fault injection written for this task: forked incarnations of the whole sampler run, virtual clock, simulated disk with kill points, line-event signal injection, cooperative pool, model seam, seeded swarm scenarios, replay files"}],
        "checks": checks,
        "not_applicable": na,
        "notes": "All checks: cwd=/verif, honour VERIF_SEED / VERIF_TIER / VERIF_JOBS; exit 0 held, 1 VIOLATION, 2 harness error. Known findings: /verif/known_findings.json. Two genuine defects were repaired with fix: commits in /repo (np.in1d; non-atomic weights save).",
    }
    with open(os.path.join(HERE, "MANIFEST.json"), "w") as f:
        json.dump(m, f, indent=1)
    try:
        import jsonschema
        jsonschema.validate(m, json.load(open("/root/.vp/MANIFEST.schema.json")))
        print("MANIFEST valid;", len(checks), "checks,", len(na), "not applicable")
    except ImportError:
        print("jsonschema not available; not validated")

if __name__ == "__main__":
    main()
