#!/bin/sh
# usage: tools/try_mutation_wt.sh <patch.diff> <check id> [<check id> ...]   (env TIER=quick|thorough)
# Like try_mutation.sh but leaves /repo untouched (safe while background runs read /repo): the change is applied
# to a scratch worktree of /repo's HEAD and the checks run against it through VERIF_REPO. The worktree is removed.
patch="$(readlink -f "$1")"; shift
wt=/var/tmp/mut-wt-$$
cd /verif || exit 2
git -C /repo worktree add -q --detach "$wt" HEAD || exit 2
trap 'git -C /repo worktree remove --force "$wt" 2>/dev/null; git -C /repo worktree prune' EXIT INT TERM
git -C "$wt" apply "$patch" || { echo "patch does not apply"; exit 2; }
for id in "$@"; do
  echo "=== $id against $(basename "$(dirname "$patch")")/$(basename "$patch")"
  VERIF_REPO="$wt" VERIF_EVIDENCE_DIR=/tmp/mut-evidence VERIF_REPLAY_DIR=/tmp/mut-replays timeout 3600 bin/check "$id" --tier "${TIER:-quick}" 2>&1 | grep -v "^WARNING" | grep -E "^VIOLATION|^KNOWN|^HARNESS|oracle=|tier=" | cut -c1-400
done
