#!/bin/sh
cd "$(dirname "$0")/.." || exit 2
for s in "$@"; do
  out=$(VERIF_SEED=$s VERIF_EVIDENCE_DIR=/tmp/ms-ev VERIF_REPLAY_DIR=/tmp/ms-rp timeout 3600 bin/check C20 --tier thorough 2>&1)
  echo "seed=$s exit=$? $(echo "$out" | grep -E "^\[C20\] tier" | cut -c1-160)"
  echo "$out" | grep -E "^VIOLATION|oracle=|HARNESS" | cut -c1-600 | head -12
done
